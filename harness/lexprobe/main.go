//go:build verif

// lexprobe: one request per stdin line (a file path); answers one JSON line.
// It drives the public reader/lexer/parser API plus the verif reader-state hooks.
package main

import (
	"bufio"
	"encoding/json"
	"fmt"
	"os"
	"strings"

	"ti/base"
	"ti/lexer"
	"ti/lexer/reader"
	"ti/parser"
)

type res struct {
	Runes      int    `json:"runes"`
	LexTokens  int    `json:"lex_tokens"`
	LexEOS     bool   `json:"lex_eos"`
	LexPos     int    `json:"lex_pos"`
	LexPending int    `json:"lex_pending"`
	ParTokens  int    `json:"par_tokens"`
	ParEOS     bool   `json:"par_eos"`
	ParPos     int    `json:"par_pos"`
	ReadErrors int    `json:"read_errors"`
	FirstErr   string `json:"first_err_tok"`
	Rendered   int    `json:"rendered"`
	Panic      string `json:"panic"`
	Err        string `json:"err"`
}

func probe(path string) (r res) {
	data, err := os.ReadFile(path)
	if err != nil {
		r.Err = err.Error()
		return
	}
	defer func() {
		if p := recover(); p != nil {
			r.Panic = fmt.Sprint(p)
		}
	}()
	mk := func() lexer.Lexer {
		return lexer.New(reader.New(*bufio.NewReader(strings.NewReader(string(data)))))
	}
	l := mk()
	_, n, _ := l.VerifReaderState()
	r.Runes = n
	bound := n + 2
	for i := 0; i < bound; i++ {
		if !l.Advance() {
			r.LexEOS = true
			break
		}
		r.LexTokens++
	}
	r.LexPos, _, r.LexPending = l.VerifReaderState()

	p := parser.New(mk(), path)
	for i := 0; i < bound; i++ {
		t, err := p.Read()
		if err != nil {
			r.ReadErrors++
			if r.FirstErr == "" {
				r.FirstErr = fmt.Sprintf("%d", p.Lexer.Token())
			}
			continue
		}
		if t == nil {
			r.ParEOS = true
			break
		}
		_ = base.TypeToString(t)
		r.Rendered++
		r.ParTokens++
	}
	r.ParPos, _, _ = p.Lexer.VerifReaderState()
	return
}

func main() {
	sc := bufio.NewScanner(os.Stdin)
	sc.Buffer(make([]byte, 1<<16), 1<<16)
	w := bufio.NewWriter(os.Stdout)
	enc := json.NewEncoder(w)
	if len(os.Args) > 1 {
		enc.Encode(probe(os.Args[1]))
		w.Flush()
		return
	}
	for sc.Scan() {
		enc.Encode(probe(sc.Text()))
		w.Flush()
	}
}
