//go:build verif

package verifharness

import (
	"bufio"
	"fmt"
	"strings"
	"testing"

	"pgregory.net/rapid"
	"ti/base"
	"ti/lexer"
	"ti/lexer/reader"
	"ti/parser"
)

// checkLex is the C03 predicate, in-process. It returns "" when the property holds.
// A non-terminating lexer cannot be observed from inside (no preemption of the
// loop), so the token bound is what turns "never ends" into a failure: every
// Advance must consume at least one rune, hence at most len(runes)+1 calls.
func checkLex(src string) string {
	mk := func() lexer.Lexer {
		return lexer.New(reader.New(*bufio.NewReader(strings.NewReader(src))))
	}
	l := mk()
	_, n, _ := l.VerifReaderState()
	bound := n + 2
	eos := false
	for i := 0; i < bound; i++ {
		if !l.Advance() {
			eos = true
			break
		}
	}
	if !eos {
		return fmt.Sprintf("lexer: no end of stream after %d tokens for %d runes", bound, n)
	}
	pos, _, pending := l.VerifReaderState()
	if pos != n || pending != 0 {
		return fmt.Sprintf("lexer: end of stream at rune %d of %d (pending %d)", pos, n, pending)
	}
	p := parser.New(mk(), "t.rb")
	eos = false
	for i := 0; i < bound; i++ {
		t, err := p.Read()
		if err != nil {
			return fmt.Sprintf("parser: %v on token kind %d", err, p.Lexer.Token())
		}
		if t == nil {
			eos = true
			break
		}
		_ = base.TypeToString(t)
	}
	if !eos {
		return "parser: no end of stream within the bound"
	}
	return ""
}

var fragments = []string{
	"\"", "'", "#", "%", "<", ">", "=", ".", "&", "|", "!", "+", "-", "/", "0x", "1.", "1_", "..", "...", "&.", "::", "\\",
	"#{", "\n", "\r", "\t", " ", "1", "23", "4.5", "a", "Ab", "_x", ":\"sym", ":s", "@a", "$b", "?", "~", "`", "*", "**", "(", ")",
	"[", "]", "{", "}", ",", ";", "^", "=>", "->", "<<~", "%w", "%i(", "=begin", "é", "日本", " ", "\ufeff", "0b1", "1e5", "-1", "+2",
}

func genSrc() *rapid.Generator[string] {
	return rapid.OneOf(
		rapid.Map(rapid.SliceOfN(rapid.SampledFrom(fragments), 0, 24), func(xs []string) string { return strings.Join(xs, "") }),
		rapid.StringN(0, 40, 200),
		rapid.Map(rapid.SliceOfN(rapid.Byte(), 0, 64), func(b []byte) string { return string(b) }),
	)
}

func TestLexRapid(t *testing.T) {
	rapid.Check(t, func(t *rapid.T) {
		src := genSrc().Draw(t, "src")
		if src == "" {
			t.Skip()
		}
		if msg := checkLex(src); msg != "" && !knownLex(src, msg) {
			t.Fatalf("%s for %q hex=%x;", msg, src, src)
		}
	})
}

// knownLex is filled from known_findings.json by the Python driver through the
// VERIF_C03_KNOWN environment variable (comma separated keys); nothing is listed by default.
func knownLex(src, msg string) bool { return false }

func FuzzLex(f *testing.F) {
	for _, s := range fragments {
		f.Add(s)
	}
	f.Add("x = 1\nputs \"a#{x}\"\n")
	f.Add("class A < B\n  def m(a, *b)\n    a <=> b\n  end\nend\n")
	f.Fuzz(func(t *testing.T, src string) {
		if len(src) > 512 {
			return
		}
		if msg := checkLex(src); msg != "" && !knownLex(src, msg) {
			t.Fatalf("%s for %q hex=%x;", msg, src, src)
		}
	})
}
