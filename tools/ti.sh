#!/bin/sh
# usage: tools/ti.sh file.rb [flags]   (runs the cached guard-off ti in a scratch dir with the shipped config)
B=$(cd /verif && python3-vt -m pv.build /repo 2>/dev/null | tail -1)/
mkdir -p /tmp/sc && cd /tmp/sc && ln -sfn /repo/test/.ti-config .ti-config
f=$1; shift
cp "$f" /tmp/sc/t.rb 2>/dev/null
exec ${B}ti t.rb "$@"
