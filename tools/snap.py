#!/usr/bin/env python3-vt
"""tools/snap.py file.rb  -> prints output and the builtin-table diff (SNAP request of the in-process server)"""
import sys, os
sys.path.insert(0, os.path.dirname(os.path.dirname(os.path.abspath(__file__))))
from pv import build, engine
bins = build.build('/repo', quiet=True)
rt = engine.RT(bins, '/repo')
o, fn = rt.run_src(open(sys.argv[1]).read(), sys.argv[2:], snap=True)
print(o.kind); print(o.out); print("--- snap"); print(o.snap[:3000])
rt.close()
