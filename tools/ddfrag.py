#!/usr/bin/env python3-vt
"""Line-level delta debugging of a list-valued field of a replay case: tools/ddfrag.py <ID> <replay.json> <field>"""
import json, sys, os
sys.path.insert(0, os.path.dirname(os.path.dirname(os.path.abspath(__file__))))
from pv import build, engine
import importlib
pid, path, field = sys.argv[1], sys.argv[2], sys.argv[3]
case = json.load(open(path))["case"]
mod = importlib.import_module("pv.props." + pid.lower())
bins = build.build("/repo", want=mod.Check.WANT, quiet=True)
prop = mod.Check("/repo", bins, "quick", 1)
rt = engine.RT(bins, "/repo", backend="blackbox")
import re
def balanced(lines):
    d = 0
    for l in lines:
        t = l.strip()
        if re.match(r"(if|unless|while|until|case|def|class|module|begin|for)\b", t) or re.search(r"\bdo( \|[^|]*\|)?$", t) or re.search(r"= (if|case|begin)\b", t):
            d += 1
        elif t == "end":
            d -= 1
            if d < 0:
                return False
        elif re.match(r"(else|elsif|when|in|rescue|ensure)\b", t) and d == 0:
            return False
    return d == 0
def fails(c):
    if field in ("frag",) and not balanced(c[field]):
        return False
    try:
        v = prop.evaluate(c, rt)
    except Exception as e:
        return False
    return v.violation is not None
is_str = isinstance(case[field], str)
items = case[field].split("\n") if is_str else list(case[field])
def mk(items):
    c = dict(case); c[field] = "\n".join(items) if is_str else items; return c
assert fails(mk(items)), "does not fail"
n = 2
while len(items) >= 2:
    chunk = max(1, len(items) // n)
    reduced = False
    for i in range(0, len(items), chunk):
        cand = items[:i] + items[i + chunk:]
        if cand and fails(mk(cand)):
            items = cand; n = max(n - 1, 2); reduced = True; break
    if not reduced:
        if chunk == 1: break
        n = min(len(items), n * 2)
print("\n".join(items))
json.dump({"case": mk(items)}, open(path + ".min", "w"), indent=1)
rt.close()
