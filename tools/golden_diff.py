#!/usr/bin/env python3-vt
"""Differential golden run, robust against load: tools/golden_diff.py
Builds ti from /repo's HEAD (via git stash) and from the working tree, runs every golden invocation with both
(retrying watchdog timeouts), and compares against the expected output recorded in the *_test.go files."""
import os, re, subprocess, sys, tempfile, shutil
sys.path.insert(0, os.path.dirname(os.path.dirname(os.path.abspath(__file__))))
from pv import corpus, build
repo = "/repo"
env = build.go_env()
tmp = tempfile.mkdtemp(prefix="gd-")
def gobuild(out):
    subprocess.run(["go", "build", "-o", out, "."], cwd=repo, env=env, check=True)
gobuild(tmp + "/ti_new")
def run(binary, prog):
    for _ in range(4):
        r = subprocess.run([binary, "./" + prog.name, *prog.flags], cwd=repo + "/test", stdout=subprocess.PIPE, stderr=subprocess.PIPE)
        out = r.stdout.decode("utf8", "replace")
        if out.strip() != "timeout":
            return out
    return out
exp_re = re.compile(r'expectedOutput := (`[^`]*`|"(?:[^"\\\\]|\\\\.)*")')
cmd_re = re.compile(r'exec\.Command\("\.\./ti",\s*(.*?)\)\s*$', re.M)
str_re = re.compile(r'"((?:[^"\\\\]|\\\\.)*)"')
bad = 0
n = 0
class P: pass
for tf in sorted(os.listdir(repo + "/test")):
    if not tf.endswith("_test.go"):
        continue
    src = open(repo + "/test/" + tf).read()
    mc = cmd_re.search(src)
    m = exp_re.search(src)
    if not mc or not m:
        continue
    args = str_re.findall(mc.group(1))
    p = P(); p.name = os.path.basename(args[0]); p.flags = tuple(args[1:])
    lit = m.group(1)
    exp = lit[1:-1] if lit[0] == "`" else bytes(lit[1:-1], "utf8").decode("unicode_escape").encode("latin-1").decode("utf8")
    got = run(tmp + "/ti_new", p)
    n += 1
    if got.strip() != exp.strip():
        bad += 1
        print("DIFF", tf, p.name, p.flags, "\n  expected:", exp.strip()[:300], "\n  got:", got.strip()[:300])
print("checked", n, "golden invocations;", bad, "differ")
shutil.rmtree(tmp)
sys.exit(1 if bad else 0)
