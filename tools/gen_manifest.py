#!/usr/bin/env python3
"""Regenerate MANIFEST.json from the table below (and validate it)."""
import json
import os
import subprocess
import sys

HERE = os.path.dirname(os.path.dirname(os.path.abspath(__file__)))

# id -> (technique, level text, level note, design ref)
CLAIMED = {
    "C01": ("property-based testing (Hypothesis: corpus prefixes, token mutation, raw bytes) + native go fuzz stage; robustness oracle",
            "Generated-input search: thousands of truncated, mutated and random inputs per run are analysed by the real rounds; "
            "a panic, non-zero exit, stderr output or an output line outside the documented grammar is a violation. "
            "Exploration is the right level: the property quantifies over all byte strings, so absence cannot be shown, only searched.",
            "Trusts the in-process mirror of main() only as an accelerator: every candidate is confirmed on the guard-off binary. Hangs are C02's.",
            "DESIGN.md §4 C01"),
    "C02": ("property-based testing (Hypothesis: truncation tails, token mutation, cyclic-hierarchy generator); termination oracle with exclusive re-check",
            "Generated-input search over truncated/mutated programs and cyclic class graphs; a case is a violation only when the real binary "
            "prints `timeout` 3/3 on an otherwise idle machine (or dies of stack overflow / memory exhaustion). Exploration: termination on all finite inputs cannot be shown by sampling, only searched.",
            "Trusts the wall-clock watchdog of ti as the observable; load-induced timeouts are re-checked under a machine-wide exclusive lock and otherwise counted as inconclusive.",
            "DESIGN.md §4 C02"),
    "C03": ("property-based testing (Hypothesis: lexeme-fragment concatenation, unicode text, raw bytes, corpus byte prefixes) + rapid + native go fuzz of the same predicate; invariant oracle on the lexer API (token bound, full consumption, no read error)",
            "Generated-input search over rune sequences against an invariant stated on the public lexer/parser API: end of stream within len(runes)+2 tokens, reader position == rune count, parser never answers `read error`. Exploration: all rune sequences cannot be enumerated.",
            "Trusts the 40-line lexprobe helper (public API + add-only reader-state accessor). A non-answer is retried on a fresh helper before it counts.",
            "DESIGN.md §4 C03"),
    "C04": ("property-based testing (Hypothesis: corpus programs, prefixes, token mutants x mode x row); robustness oracle (status, stderr, record grammar, watchdog)",
            "Generated-input search over (program, editor mode, row) triples incl. rows before the first line and past EOF; violation = panic / non-zero exit / believed hang / a line that is neither a well-formed %,@,$ record nor a diagnostic of the target file. Exploration.",
            "In-process candidates are confirmed on the guard-off binary; hangs believed only 3/3 under the exclusive lock.",
            "DESIGN.md §4 C04"),
    "C06": ("property-based testing (Hypothesis: grammar-generated programs with exact statement boundaries + corpus programs with a conservative boundary filter); metamorphic relation (layout edit => row shift only)",
            "Generated-input search over (program, layout edit) pairs; the edited program's records must equal the base records with rows after the edit shifted by the inserted line count (multiset comparison, plain and -i). Exploration.",
            "ti is compared with itself on two different inputs; the relation is the property's own statement. Crashing/hanging runs are discarded and counted (C01/C02).",
            "DESIGN.md §4 C06"),
    "C11": ("property-based testing (Hypothesis: grammar-generated and corpus hosts x generated/hand-written independent fragments x insertion points); metamorphic relation (insertion of independent code leaves other records unchanged modulo row shift)",
            "Generated-input search over (host, fragment, boundary) triples; records outside the fragment's rows, shifted back, must equal the host's records (multisets, plain and -i). Exploration.",
            "Independence precondition decided on identifier pools (fragment identifiers carry a reserved prefix). Crashing/hanging runs are discarded and counted.",
            "DESIGN.md §4 C11"),
    "C13": ("property-based testing (Hypothesis: generated programs with known binding occurrences + conservative corpus renamer x fresh names from random / edge-shape / hostile-word pools); metamorphic relation (alpha-renaming)",
            "Generated-input search over (program, identifier, fresh name); output of the renamed program with the renaming inverted must equal the original output. Exploration.",
            "Fresh-name preconditions are checked on the actual program and output. Known finding: class names without a lowercase letter.",
            "DESIGN.md §4 C13"),
    "C14": ("property-based testing (Hypothesis: keyword calls against user-defined and generated configured methods, all permutations); metamorphic relation (permutation invariance)",
            "Generated-input search over keyword call sites (required/defaulted/missing/unknown/mistyped keys, with positionals); every permutation of the keyword arguments must give byte-identical -i output. Exploration.",
            "One call site per program so inference order is fixed.",
            "DESIGN.md §4 C14"),
    "C05": ("property-based testing (Hypothesis: corpus, generated and tie-rich programs x all output modes), repeated-run differential on the real binary in fresh processes with varied GOMAXPROCS/GOGC",
            "Generated-input search over (program, mode) pairs, each run k times (4 quick / 8 thorough) in separate processes; any byte difference (line-order-insensitive for --define) is a violation. Exploration: schedules and map orders are sampled by repetition, the residual miss probability (1-p)^(k-1) is stated in the evidence rule.",
            "The harness cannot own Go's map-iteration seed; it samples it. Runs entirely on the guard-off binary.",
            "DESIGN.md §4 C05"),
    "C18": ("property-based testing (Hypothesis: generated and corpus programs x 1-3 top-level split points); metamorphic relation (preload == hidden prefix)",
            "Generated-input search over (program, split points); the target analysed with .ti-loader.json preloads must print exactly the records the concatenation prints for the target's rows (rebased), and never mention a preload file. Exploration.",
            "Split points are exact for generated programs and conservative (keyword-depth filter) for corpus programs.",
            "DESIGN.md §4 C18"),
    "C07": ("property-based testing (Hypothesis: generated configurations x generated call programs) against an independent reference model of the documented call semantics (three-valued: must-report / must-not / don't-care)",
            "Generated-input search over (configuration, program); every call line the model marks MUST_ERR (no method on any receiver class, count outside every declaration, or an argument rejected by every applicable declaration) must carry a diagnostic. Exploration.",
            "The model interprets the abstract configuration, not ti's loader; only definite verdicts are asserted (missing keywords, unknown keywords, subclass arguments, rest element types are don't-care). Known finding: overloads sharing a keyword name.",
            "DESIGN.md §4 C07"),
    "C08": ("property-based testing (Hypothesis: generated configurations x call programs biased towards valid calls) against the same independent reference model; must-not-report oracle",
            "Generated-input search; every call line the model marks MUST_OK before the first line that is not MUST_OK must carry no diagnostic. Exploration.",
            "Same model as C07; only lines before the first definite error / don't-care line are asserted so recovery effects cannot interfere. Known finding: overloads sharing a keyword name.",
            "DESIGN.md §4 C08"),
    "C19": ("property-based testing (Hypothesis: shipped configuration under file-order permutations; generated configurations split over files in random orders); metamorphic relation (equivalent config directories => identical output)",
            "Generated-input search over (configuration, rendering A, rendering B, program); renderings differ only in file names/order and in how a class's declarations are distributed over files. Exploration.",
            "Overloads of one method stay in one file in their declared order (their order is observable by design).",
            "DESIGN.md §4 C19"),
    "C20": ("property-based testing (Hypothesis: corpus and generated programs x generated extra config classes incl. short-name collisions in foreign frames); metamorphic relation (adding unmentioned classes changes nothing)",
            "Generated-input search over (program, extra config files loaded first or last); output with and without the extras must be identical. Exploration.",
            "Precondition checked on tokens: the program mentions no added class name except in the stated same-short-name/other-frame case.",
            "DESIGN.md §4 C20"),
    "C21": ("property-based testing (Hypothesis: abstract generated configurations rendered under two different subsets of the documented notation equivalences x call programs); metamorphic relation (equivalent notations => identical output)",
            "Generated-input search over (abstract configuration, notation subsets A != B, program); plain, -i, --suggest and --llm-define outputs must be identical. Exploration.",
            "Each flip is one equivalence the property lists; union member order is kept.",
            "DESIGN.md §4 C21"),
    "C10": ("property-based testing (Hypothesis: generated conditionals over union-typed variables, nested up to depth 3) against a set-theoretic reference model of narrowing",
            "Generated-input search; `dbtp v` at the start and end of every branch and after `end` must equal the model (intersection with the admitted variants, complement for the negated single atom, nothing for a negated && chain, restoration afterwards). Exploration.",
            "Three listed finding shapes (&& on one variable, negated && chain, elsif !nil? after is_a?) are avoided by 3/4 of the generator and kept alive by the rest; dependent probes inside such a branch are not examined further.",
            "DESIGN.md §4 C10"),
    "C16": ("property-based testing (Hypothesis: generated class hierarchies with modules, visibility sections, reopening, namespaces, colliding names) against a reference model of Ruby method resolution and visibility",
            "Generated-input search; each probe (instance call, class call, K.new arity) is judged by the Ruby MRO/visibility model: resolvable -> dbtp shows the resolved method's distinct literal type and no diagnostic; otherwise a diagnostic on the row. Exploration.",
            "No Ruby interpreter is available: the reference is a deliberately small model of uncontroversial semantics (MRO, visibility with explicit receiver, new<->initialize).",
            "DESIGN.md §4 C16"),
    "C27": ("property-based testing (Hypothesis: C16's hierarchy generator x module wrapping x same-named decoys); metamorphic relation (namespacing and decoys leave per-probe output unchanged modulo qualifying prefix)",
            "Generated-input search over (class group, wrapping in one or two modules, decoy placement); per-probe records, the remaining diagnostics and --extends output must agree with the top-level variant after stripping the prefix. Exploration.",
            "The group is self-contained by construction.",
            "DESIGN.md §4 C27"),
    "C15": ("property-based testing (Hypothesis: generated user methods x call sites before/after/inside other methods) against a reference model of call-site union typing and body results",
            "Generated-input search; parameter types inside the body and in the -i signature must cover the union of all call-site argument types and defaults, call results must equal the model's body result, body operations failing/succeeding for all argument types must / must not be reported. Exploration.",
            "Known finding: a call before the definition of a method with >= 3 parameters combined with a later call of other types.",
            "DESIGN.md §4 C15"),
    "C17": ("property-based testing (Hypothesis + exhaustive enumeration of every shipped method with block_parameters x receivers x block forms) against a model of the documented block parameter types and Ruby block scoping",
            "Enumerated and generated block calls; declared parameter types (modelled kinds), NilClass surplus parameters, restoration of a shadowed outer variable and invisibility of block-local variables are asserted through dbtp. Exploration.",
            "Item/Flatten/UnifyArgument parameter kinds are not modelled: only scoping is asserted for them.",
            "DESIGN.md §4 C17"),
    "C09": ("property-based testing (Hypothesis: generated straight-line programs over a hand-written configuration) against a reference model of literal, collection and declared-return types",
            "Generated-input search; after every step and at the end, `dbtp v` must equal the model's type for v structurally (scalar/union sets, array element sets, hash). Exploration.",
            "Nested arrays, absent hash keys and SelfArray on plain objects are outside the model (the documentation does not fix them).",
            "DESIGN.md §4 C09"),
    "C12": ("property-based testing (Hypothesis: corpus, generated and mutator-rich programs) with an invariant oracle on the in-memory builtin method table (verif hook snapshot before/after the four rounds)",
            "Generated-input search; every table entry that exists after loading the configuration must render identically after analysing the program (arguments, return type incl. variants, flags, block parameters, overloads). Exploration.",
            "The observable is the guard-on build's table (add-only hook); entries added by inference and the display cache are ignored.",
            "DESIGN.md §4 C12"),
    "C22": ("property-based testing (Hypothesis: generated classes/modules with methods in visibility sections and five definition forms) against a Ruby model of definition rows, c/i tags and visibility; --define and --hover queried on every call row",
            "Generated-input search; -i hint on each def row with the model's tag, --define record naming the def row, --hover line naming Class.method for each call row. Exploration.",
            "Visibility inside `class << self` bodies is not varied (only bare sections of the class body).",
            "DESIGN.md §4 C22"),
    "C23": ("property-based testing (Hypothesis + exhaustive enumeration of receivers x cursor forms) against a set model of callable methods read independently from the shipped configuration and a fixed user hierarchy",
            "For every receiver/cursor form: MUST (own and inherited methods; class methods for class receivers) must be listed, MUST_NOT (methods only unrelated classes define, foreign private methods, wrong-side methods) must not; Object/Kernel membership asserted separately. Exploration.",
            "Five listed findings (dot at EOF, Object/Kernel omission, class methods on K.new instances, Range literal, directly written literal receivers) are matched by shape; the remaining receivers are asserted in full.",
            "DESIGN.md §4 C23"),
    "C24": ("property-based testing (Hypothesis: generated programs with call sites of eleven known shapes in method bodies and at top level) against the generator's own call-site model",
            "For every called method, --llm-nav --target=<name> must list exactly the model's multiset of (row, enclosing method, class), the matching total, and only callees written in the body. Exploration.",
            "Known finding: implicit-receiver calls between instance methods of a class are not recorded.",
            "DESIGN.md §4 C24"),
    "C25": ("property-based testing (Hypothesis: generated RBS-AST JSON documents fed through a stand-in ruby) with a repeated-run differential, a shape model of the documented argument order/type mapping, and an arity oracle through ti on the emitted configuration",
            "Generated-input search; k conversions must be byte-identical, every overload's arguments must follow required/optional/rest/trailing/required-keyword/optional-keyword order with the mapped types, and calls with 0..6 positionals must be accepted exactly within the RBS arity. Exploration.",
            "The stand-in replaces only the RBS parser. Arity is asserted for single-overload methods with uniformly typed parameters.",
            "DESIGN.md §4 C25"),
    "C26": ("property-based testing (Hypothesis: generated C binding sources with MRB_ARGS specs, mrb_get_args formats and GET_*_ARG/argc patterns) with a ground-truth arity computed by the generator; differential for determinism",
            "Generated-input search; two conversions byte-identical; with the emitted JSON as configuration, Cbind.m(k args) for k = 0..6 has no diagnostic exactly when the C binding accepts k. Exploration.",
            "The C text is only read by the converter's regular expressions. Known finding: OPT+REST+POST with too few arguments (same root as C07's).",
            "DESIGN.md §4 C26"),
}

PENDING_REASON = "check not built yet in this round (planned in DESIGN.md §3.11); no claim is made"


def main():
    props = [json.loads(l) for l in open(os.path.join(HERE, "properties.jsonl"))]
    hooks = subprocess.run(["git", "-C", "/repo", "log", "--format=%H %s"], capture_output=True, text=True).stdout.splitlines()
    hook_commits = [l.split()[0] for l in hooks if " verif hooks:" in l or " verif hook:" in l]
    checks = []
    na = []
    for p in props:
        i = p["id"]
        if i in CLAIMED:
            tech, text, note, ref = CLAIMED[i]
            checks.append({
                "property_id": i,
                "quick_cmd": "./check %s --tier quick" % i,
                "thorough_cmd": "./check %s --tier thorough" % i,
                "evidence_file": "/verif/evidence/%s.json" % i,
                "replay_cmd_template": "./check %s --replay {path}" % i,
                "engine": "pv",
                "level_claimed": {"category": "exploration", "text": text, "design_ref": ref},
                "level_note": note,
                "technique": tech,
            })
        else:
            na.append({"property_id": i, "reason": PENDING_REASON})
    m = {
        "version": 1,
        "setup_cmd": "./setup.sh",
        "hooks": {
            "guard": "verif",
            "enable": "go test -c -tags verif -o .build/<treehash>/ti.verif.test . (in /repo; done by pv/build.py); the shipped binary is built with the guard off",
            "baseline_off_cmd": "cd /repo && GOFLAGS=-mod=mod GOPROXY=off go test -vet=off -count=1 -timeout 25m ./...",
            "source_commits": hook_commits,
            "add_only": True,
        },
        "engines": [
            {"name": "pv", "path": "/verif/pv", "serves_properties": sorted(CLAIMED),
             "kind_free_text": "Python + Hypothesis 6.168 property-based testing driving ti through an in-process server (build tag verif) and the real binary"},
        ],
        "checks": checks,
        "not_applicable": na,
        "notes": "exit 0 held / exit 1 VIOLATION / exit 2 infrastructure. VERIF_SEED selects the Hypothesis seed; known findings are in known_findings.json.",
    }
    out = os.path.join(HERE, "MANIFEST.json")
    with open(out, "w") as fh:
        json.dump(m, fh, indent=1)
        fh.write("\n")
    try:
        import jsonschema
        jsonschema.validate(m, json.load(open(os.path.join(HERE, "schemas", "MANIFEST.schema.json"))))
        print("MANIFEST valid:", len(checks), "checks,", len(na), "not claimed")
    except ImportError:
        print("jsonschema not available; not validated")


if __name__ == "__main__":
    main()
