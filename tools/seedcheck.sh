#!/bin/sh
# tools/seedcheck.sh <seed-dir> <ID> [more IDs]: apply seeded/<dir>/patch.diff to /repo, golden suite, run the quick checks, undo.
D=$1; shift
cd /repo || exit 2
git status --short | grep -q . && { echo "repo dirty"; exit 2; }
git apply "$D/patch.diff" || { echo "patch does not apply"; exit 2; }
export GOFLAGS=-mod=mod GOPROXY=off
go build -o /repo/ti . || { git checkout -- .; exit 2; }
(go test -vet=off -count=1 -parallel=2 ./test/... 2>&1 | tail -2)
rm -f /repo/ti
cd /verif
for id in "$@"; do
  VERIF_SEED=${VERIF_SEED:-1} ./check $id --tier ${TIER:-quick} 2>&1 | grep -v "^WARNING" | grep "^$id\|^VIOLATION\|^KNOWN\|^violation" | cut -c1-700
  echo "exit=$?"
done
git -C /repo checkout -- .
git -C /repo status --short
