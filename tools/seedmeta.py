#!/usr/bin/env python3
"""tools/seedmeta.py <seed-id> <property> <caught-by|MISSED> "<needs>" "<what I ran>" """
import json, sys
sid, prop, caught, needs, ran = sys.argv[1:6]
json.dump({"seed": sid, "breaks_property": prop, "needs_to_manifest": needs, "verified": ran, "caught_by": caught},
          open("/verif/seeded/%s/meta.json" % sid, "w"), indent=1)
