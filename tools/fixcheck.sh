#!/bin/sh
# Golden suite with ti built (585 programs) + pinned baseline without ti, for the tree at ${1:-/repo}
R=${1:-/repo}
export GOFLAGS=-mod=mod GOPROXY=off
cd $R || exit 2
go build -o $R/ti . || exit 2
(cd $R && go test -vet=off -count=1 -parallel=4 ./test/... 2>&1 | tail -5)
rm -f $R/ti
(cd $R && go test -vet=off -count=1 ./... 2>&1 | grep -c "^--- FAIL" | sed 's/^/baseline FAIL count (expected 518): /')
git -C $R status --short | head
