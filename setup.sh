#!/bin/sh
# setup_cmd: offline; builds the helper binaries from /repo's current tree and byte-compiles pv/.
set -e
cd "$(dirname "$0")"
command -v python3-vt >/dev/null || { echo "python3-vt missing"; exit 2; }
python3-vt -c "import hypothesis, jsonschema" || { echo "hypothesis/jsonschema missing"; exit 2; }
python3-vt -m compileall -q pv >/dev/null
python3-vt -m pv.build "${VERIF_REPO:-/repo}" >/dev/null
echo "setup ok"
