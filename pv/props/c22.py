"""C22 — definition info and hover point at the right definition."""
import re

from hypothesis import strategies as st

from .. import meta, out as outmod, run
from ..engine import Prop, Verdict


@st.composite
def def_program(draw):
    """Classes/modules with methods in visibility sections; returns JSON-able spec."""
    ncls = draw(st.integers(1, 2))
    classes = []
    for ci in range(ncls):
        c = ["Alfa", "Bravo"][ci]
        kw = draw(st.sampled_from(["class", "class", "module"]))
        items = []
        for k in range(draw(st.integers(2, 5))):
            if kw == "class" and draw(st.integers(0, 2)) == 0:
                items.append({"vis": draw(st.sampled_from(["private", "protected", "public"]))})
            form = draw(st.sampled_from(["plain", "plain", "self", "endless", "multi", "sing", "endless-multi", "endless-self"]))
            it = {"form": form, "name": "%s_m%d" % (c.lower(), k)}
            if form == "sing" and draw(st.integers(0, 1)) == 0:
                # a visibility keyword *inside* the singleton body does apply to the class-side definition
                it["inner_vis"] = draw(st.sampled_from(["private", "private", "protected", "public"]))
            items.append(it)
        classes.append({"kw": kw, "name": c, "items": items})
    return {"classes": classes}


def render(case):
    lines, defs, calls = [], [], []     # defs: (row, kind, vis, cls, name, form)
    iscls = {}
    for c in case["classes"]:
        iscls[c["name"]] = c["kw"] == "class"
        lines.append("%s %s" % (c["kw"], c["name"]))
        vis = "public"
        for it in c["items"]:
            if "vis" in it:
                vis = it["vis"]
                lines.append("  " + vis)
                continue
            form, name, cn = it["form"], it["name"], c["name"]
            if form == "plain":
                defs.append((len(lines) + 1, "i", vis, cn, name, form))
                lines += ["  def %s(a)" % name, "    a", "  end"]
            elif form == "self":
                defs.append((len(lines) + 1, "c", "public", cn, name, form))
                lines += ["  def self.%s(a)" % name, "    a", "  end"]
            elif form == "endless":
                defs.append((len(lines) + 1, "i", vis, cn, name, form))
                lines += ["  def %s(a) = a" % name]
            elif form == "endless-multi":
                # endless definition whose parameter list spans several lines: the definition is still the `def` row
                defs.append((len(lines) + 1, "i", vis, cn, name, form))
                lines += ["  def %s(" % name, "    a,", "    b = 2", "  ) = a"]
            elif form == "endless-self":
                defs.append((len(lines) + 1, "c", "public", cn, name, form))
                lines += ["  def self.%s(a," % name, "      b = 2) = a"]
            elif form == "multi":
                defs.append((len(lines) + 1, "i", vis, cn, name, form))
                lines += ["  def %s(a," % name, "      b = 1)", "    a", "  end"]
            else:
                lines.append("  class << self")
                iv = it.get("inner_vis")
                if iv:
                    lines.append("    " + iv)
                defs.append((len(lines) + 1, "c", iv or "public", cn, name, form))
                lines += ["    def %s(a)" % name, "      a", "    end", "  end"]
        lines.append("end")
    insts = {}
    for c in case["classes"]:
        cn = c["name"]
        if iscls[cn] and any(d[3] == cn and d[1] == "i" for d in defs):
            insts[cn] = "o_" + cn.lower()
            lines.append("%s = %s.new" % (insts[cn], cn))
    for row, kind, vis, cn, name, form in defs:
        if kind == "i" and cn in insts and vis == "public":
            calls.append((len(lines) + 1, cn, name, "i"))
            lines.append("%s.%s(1)" % (insts[cn], name))
        elif kind == "c" and vis == "public":
            calls.append((len(lines) + 1, cn, name, "c"))
            lines.append("%s.%s(1)" % (cn, name))
    return "\n".join(lines) + "\n", defs, calls


class Check(Prop):
    ID = "C22"
    RULE = ("cases = generated programs with 1-2 classes/modules, 2-4 methods each written as plain def, `def self.`, endless def, "
            "multi-line signature or inside `class << self`, under public/private/protected sections, followed by one call row per "
            "callable method (instance calls on K.new, class calls on K). Oracle (Ruby model): (1) `-i` prints on the def row a signature "
            "hint tagged [i/<visibility in effect>] for instance methods and [c/public] for class-side methods (a bare visibility keyword "
            "of the class body only affects later instance methods; a keyword written inside `class << self` applies to the singleton definitions); (2) `--define --row=<call row>` contains the record %<frame>:::<class>:::<method>:::"
            "<file>:::<def row>; (3) `--hover --row=<call row>` prints a %<method>::: line whose detail names Class.method. Non-trivial = "
            ">= 1 definition under a non-public section or a class-side/endless/multi-line definition; distinct by SHA-1(program).")
    ASSUMPTIONS = (
        "crashing/hanging runs are discarded here and counted",
        "violations seen through the in-process server are re-evaluated on the guard-off binary before being reported",
    )
    BUDGET = {"quick": 700, "thorough": 10000}
    WALL = {"quick": 150, "thorough": 1500}

    def strategy(self):
        return def_program()

    def sample(self, case):
        return {"program": render(case)[0]}

    def evaluate(self, case, rt):
        src, defs, calls = render(case)
        key = run.sha(src)
        labels = []
        sb = rt.sandbox()
        fn = sb.write(src)
        try:
            o = rt.runner.run(sb, fn, ["-i"])
            if o.kind != "ok":
                return Verdict(None, labels, False, key, discard="crash" if o.kind == "crash" else "hang")
            recs, bad = outmod.parse_lines(o.out, fn)
            hints = {}
            for k, r, t in recs:
                if k == "H":
                    hints.setdefault(r, []).append(t)
            nontrivial = any(d[2] != "public" or d[5] != "plain" for d in defs)
            after_vis = set()
            for row, kd, vis, cn, name, form in defs:
                labels.append("def:%s:%s/%s" % (form, kd, vis))
                hs = [h for h in hints.get(row, []) if re.search(r"\[[ci]/\w+\]$", h)]
                want = "[%s/%s]" % (kd, vis)
                if not any(h.endswith(want) for h in hs):
                    # was a bare visibility keyword in effect? (class-side definitions must stay public)
                    sect = self.section_at(case, cn, name)
                    return Verdict({"what": "def %s.%s (%s) on row %d: expected a hint tagged %s, -i prints %s" % (cn, name, form, row, want, hints.get(row)),
                                    "kind": "hint", "form": form, "tag": want, "section": sect, "program": meta.with_rows(src)}, labels + ["mismatch"], nontrivial, key)
            drow = {(cn, name): row for row, kd, vis, cn, name, form in defs}
            sect_of = {(cn, name): self.section_at(case, cn, name) for row, kd, vis, cn, name, form in defs}
            for row, cn, name, kd in calls[:5]:
                for mode in ("--hover", "--define"):
                    o2 = rt.runner.run(sb, fn, [mode, "--row=%d" % row])
                    if o2.kind != "ok":
                        return Verdict(None, labels, False, key, discard="crash" if o2.kind == "crash" else "hang")
                    ls = o2.out.split("\n")
                    labels.append("%s:%s" % (mode, kd))
                    if mode == "--hover":
                        ok = any(l.startswith("%" + name + ":::") and (cn + "." + name + "(") in l for l in ls)
                    else:
                        ok = any(re.match(r"^%%[^:]*:::%s:::%s:::%s:::%d$" % (cn, re.escape(name), re.escape(fn), drow[(cn, name)]), l) for l in ls)
                    if not ok:
                        shown = [l for l in ls if name in l][:4] or ls[:3]
                        return Verdict({"what": "%s --row=%d (call of %s.%s, %s-side): expected %s, got %s" % (
                            mode, row, cn, name, kd, "a hover line for the method" if mode == "--hover" else "a record pointing at row %d" % drow[(cn, name)], shown),
                            "kind": mode, "form": [d[5] for d in defs if d[3] == cn and d[4] == name][0], "section": sect_of[(cn, name)], "side": kd,
                            "program": meta.with_rows(src)}, labels + ["mismatch"], nontrivial, key)
        finally:
            sb.remove(fn)
        return Verdict(None, labels, nontrivial, key)

    @staticmethod
    def section_at(case, cn, name):
        for c in case["classes"]:
            if c["name"] != cn:
                continue
            vis = "public"
            for it in c["items"]:
                if "vis" in it:
                    vis = it["vis"]
                elif it["name"] == name:
                    return vis
        return "public"

    def matchers(self):
        def m_class_side(case, v, params):
            """Class-side definition (def self. / class << self) written after a bare private/protected."""
            return v.get("form") in ("self", "sing", "endless-self") and v.get("section") in ("private", "protected")
        return {"c22_class_side_after_visibility": m_class_side}
