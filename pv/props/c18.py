"""C18 — preloaded files act like a prefix whose diagnostics are hidden."""
import json
import os

from hypothesis import strategies as st

from .. import corpus, meta, out as outmod, rb, run
from ..engine import Prop, Verdict


class Check(Prop):
    ID = "C18"
    RULE = ("cases = (program, 1-3 split points at top-level statement boundaries). Programs: grammar-generated (top-level statement "
            "boundaries known exactly; defs, classes, modules and their call sites end up in different parts) and golden corpus programs "
            "(conservative top-level boundary filter). The parts before the last split point become preload files listed in "
            ".ti-loader.json in concatenation order; the rest is the target. Oracle: records of `ti target -i` (plain sampled) equal the "
            "records of the concatenation restricted to the target's rows and rebased (multisets), and no output line mentions a preload "
            "file. Non-trivial = the target's expected output is non-empty and some preload part defines a method or class or assigns a "
            "variable the target uses; distinct by SHA-1.")
    ASSUMPTIONS = (
        "crashing/hanging runs are discarded here and counted",
        "violations seen through the in-process server are re-evaluated on the guard-off binary before being reported",
    )
    BUDGET = {"quick": 1500, "thorough": 30000}
    WALL = {"quick": 150, "thorough": 1500}

    def __init__(self, *a):
        Prop.__init__(self, *a)
        self.progs = [p for p in corpus.plain(self.repo) if len(p.text) < 5000 and "\r" not in p.text]
        self.cb = None

    def _corpus_bounds(self):
        if self.cb is None:
            self.cb = []
            for i, p in enumerate(self.progs):
                rows = [r for r in corpus.top_level_boundaries(p.text) if r > 1]
                if rows:
                    self.cb.append((i, rows))
        return self.cb

    def explicit(self):
        n = 40 if self.tier == "quick" else 400
        cb = self._corpus_bounds()
        step = max(1, len(cb) // n)
        for i, rows in cb[::step][:n]:
            p = self.progs[i]
            yield {"src": p.text, "cuts": [rows[len(rows) // 2]], "origin": "corpus:" + p.name}
            if len(rows) >= 3:
                yield {"src": p.text, "cuts": [rows[len(rows) // 3], rows[2 * len(rows) // 3]], "origin": "corpus:" + p.name}

    def strategy(self):
        cb = self._corpus_bounds()
        progs = self.progs

        @st.composite
        def gen_case(draw):
            p = draw(rb.program(min_stmts=4, max_stmts=10, case_in=True))
            tree = p["tree"]
            # top-level boundaries = before top-level node k (k >= 1)
            rows = []
            r = 1
            for k, n in enumerate(tree):
                if k >= 1:
                    rows.append(r)
                r += rb.count_lines([n])
            if not rows:
                rows = [1]
            ncut = draw(st.integers(1, min(3, len(rows))))
            idx = sorted(set(draw(st.lists(st.integers(0, len(rows) - 1), min_size=ncut, max_size=ncut))))
            return {"src": rb.render(tree), "cuts": [rows[i] for i in idx]}

        @st.composite
        def corpus_case(draw):
            i, rows = cb[draw(st.integers(0, len(cb) - 1))]
            p = progs[i]
            ncut = draw(st.integers(1, min(3, len(rows))))
            idx = sorted(set(draw(st.lists(st.integers(0, len(rows) - 1), min_size=ncut, max_size=ncut))))
            return {"src": p.text, "cuts": [rows[k] for k in idx], "origin": "corpus:" + p.name}

        return st.one_of(gen_case(), gen_case(), corpus_case())

    def sample(self, case):
        return {"src": case["src"][:500], "cuts": case["cuts"], "origin": case.get("origin", "generated")}

    def evaluate(self, case, rt):
        src, cuts = case["src"], sorted(set(c for c in case["cuts"] if c > 1))
        key = run.sha(src, repr(cuts))
        origin = case.get("origin", "generated").split(":")[0]
        labels = [origin, "preloads:%d" % len(cuts)]
        lines = src.split("\n")
        if lines and lines[-1] == "":
            lines.pop()
        cuts = [c for c in cuts if c <= len(lines)]
        if not cuts:
            return Verdict(None, labels + ["precondition"], False, key, discard="precondition")
        bounds = [1] + cuts + [len(lines) + 1]
        parts = ["\n".join(lines[bounds[i] - 1:bounds[i + 1] - 1]) + "\n" for i in range(len(bounds) - 1)]
        pre, target = parts[:-1], parts[-1]
        offset = cuts[-1] - 1
        flags = ["-i"] if int(key[:2], 16) % 4 else []
        labels.append("flags:" + (flags[0] if flags else "plain"))
        sb = rt.sandbox()
        names = []
        tag = key[:8]
        try:
            for k, ptxt in enumerate(pre):
                n = "pre_%s_%d.rb" % (tag, k)
                with open(os.path.join(sb.dir, n), "w") as fh:
                    fh.write(ptxt)
                names.append(n)
            try:
                whole = meta.analyse(rt, "".join(parts), flags)
                with open(os.path.join(sb.dir, ".ti-loader.json"), "w") as fh:
                    json.dump({"preload": names}, fh)
                o, fn = rt.run_src(target, flags)
            except meta.Discard as d:
                return meta.discard_verdict(d, labels, key)
            if o.kind != "ok":
                return Verdict(None, labels + ["discard-" + o.kind], False, key, discard="crash" if o.kind == "crash" else "hang")
            recs, bad = outmod.parse_lines(o.out, fn)
            got = [(k, r, t.replace(fn, "<file>")) for k, r, t in recs] + [("?", -1, b.replace(fn, "<file>")) for b in bad]
            mention = [l for l in o.out.split("\n") if any(n in l for n in names)]
        finally:
            for n in names + [".ti-loader.json"]:
                try:
                    os.unlink(os.path.join(sb.dir, n))
                except OSError:
                    pass
        exp = [(k, r - offset, t) for k, r, t in whole if r > offset]
        pretext = "".join(pre)
        if "def " in pretext:
            labels.append("preload-defines-method")
        if "class " in pretext or "module " in pretext:
            labels.append("preload-defines-class")
        nontrivial = bool(exp) and ("def " in pretext or "class " in pretext or " = " in pretext)
        if mention:
            return Verdict({"what": "output mentions a preloaded file: %r" % mention[0][:200], "mention": True, "target": target[:2000], "preload": pre},
                           labels + ["mention"], nontrivial, key)
        if meta.same(exp, got):
            return Verdict(None, labels, nontrivial, key)
        d = meta.diff(exp, got)
        return Verdict({"what": "preload differs from hidden prefix: %s" % d, "diff": d, "flags": flags, "preload": [p[:1500] for p in pre],
                        "target": target[:2000]}, labels + ["mismatch"], nontrivial, key)
