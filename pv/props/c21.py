"""C21 — equivalent type notations in config mean the same thing."""
import json

from hypothesis import strategies as st

from .. import callprog, cfg as cfgmod, meta, run
from ..engine import Prop, Verdict


class Check(Prop):
    ID = "C21"
    RULE = ("cases = (abstract generated configuration, two notation choices A != B, call program). Each notation choice is a subset of "
            "the documented equivalences: \"A|B\" <-> [\"A\",\"B\"]; return \"?T\" <-> [T,\"NilClass\"]; OptionalX <-> [X,\"NilClass\"]; "
            "argument \"?T\" <-> T + is_default; DefaultX <-> X + is_default; \"*T\" <-> T + is_asterisk; \"[T]\" <-> XArray; \"Int\" <-> "
            "\"Integer\"; \"T\" <-> [\"T\"]. The same abstract configuration is rendered twice and the same program (calls of the configured "
            "methods with accepted and rejected arguments, dbtp of every result) is analysed under both. Oracle: identical output for "
            "plain, -i, --suggest --row=<call row> and --llm-define --class=K (sorted lines). Non-trivial = the two renderings differ "
            "textually in a method the program calls; distinct by SHA-1.")
    ASSUMPTIONS = (
        "crashing/hanging runs are discarded here and counted",
        "violations seen through the in-process server are re-evaluated on the guard-off binary before being reported",
    )
    BUDGET = {"quick": 900, "thorough": 15000}
    WALL = {"quick": 150, "thorough": 1500}

    def strategy(self):
        flips = st.lists(st.sampled_from(cfgmod.ALL_FLIPS), max_size=5, unique=True)

        @st.composite
        def case(draw):
            c = draw(cfgmod.gen_config(arrays=True, untyped_ret=True))
            prog = draw(callprog.call_program(config=c, ncalls=(3, 6), nest=False))
            a = sorted(draw(flips))
            b = sorted(draw(flips))
            if a == b:
                b = sorted(set(b) ^ {draw(st.sampled_from(cfgmod.ALL_FLIPS))})
            return {"cfg": c, "lines": prog["lines"], "probes": prog["probes"], "a": a, "b": b}
        return case()

    def sample(self, case):
        return {"program": "\n".join(case["lines"]), "notation_a": case["a"], "notation_b": case["b"],
                "config_a": cfgmod.render_files(case["cfg"], set(case["a"]))}

    def evaluate(self, case, rt):
        src = "\n".join(case["lines"]) + "\n"
        fa = cfgmod.render_files(case["cfg"], set(case["a"]))
        fb = cfgmod.render_files(case["cfg"], set(case["b"]))
        key = run.sha(src, json.dumps(fa, sort_keys=True), json.dumps(fb, sort_keys=True))
        labels = ["flip:" + f for f in sorted(set(case["a"]) ^ set(case["b"]))]
        called = {p["m"] for p in case["probes"]}
        differs = False
        for n in fa:
            if fa[n] != fb[n]:
                da, db = json.loads(fa[n]), json.loads(fb[n])
                for k in ("instance_methods", "class_methods"):
                    for ma, mb in zip(da[k], db[k]):
                        if ma != mb and ma["name"] in called:
                            differs = True
        classes = [c["class"] for c in case["cfg"]["classes"]]
        rows = [p["row"] for p in case["probes"]][:2]
        modes = [[], ["-i"]] + [["--suggest", "--row=%d" % r] for r in rows[:1]] + [["--llm-define", "--class=%s" % classes[0]]]
        try:
            for flags in modes:
                sb_a = rt.sandbox(fa)
                fn = sb_a.write(src)
                oa = rt.runner.run(sb_a, fn, flags)
                sb_a.remove(fn)
                sb_b = rt.sandbox(fb)
                fn2 = sb_b.write(src)
                ob = rt.runner.run(sb_b, fn2, flags)
                sb_b.remove(fn2)
                if oa.kind != "ok" or ob.kind != "ok":
                    return Verdict(None, labels + ["discard"], False, key, discard="crash" if "crash" in (oa.kind, ob.kind) else "hang")
                ta = oa.out.replace(fn, "<file>")
                tb = ob.out.replace(fn2, "<file>")
                if "--llm-define" in flags or "--suggest" in flags:
                    ta, tb = "\n".join(sorted(ta.split("\n"))), "\n".join(sorted(tb.split("\n")))
                if ta != tb:
                    la, lb = ta.split("\n"), tb.split("\n")
                    only_a = [l for l in la if l not in lb][:4]
                    only_b = [l for l in lb if l not in la][:4]
                    return Verdict({"what": "notations %s vs %s differ with flags %s: only A %s / only B %s" % (case["a"], case["b"], flags, only_a, only_b),
                                    "flags": flags, "only_a": only_a, "only_b": only_b, "program": src, "config_a": fa, "config_b": fb,
                                    "flips": sorted(set(case["a"]) ^ set(case["b"]))}, labels + ["mismatch"], differs, key)
        except meta.Discard as d:
            return meta.discard_verdict(d, labels, key)
        return Verdict(None, labels, differs, key)

    def matchers(self):
        def m_flip(case, v, params):
            return params.get("flip") in (v.get("flips") or []) and any(params.get("pattern", "") in l for l in (v.get("only_a") or []) + (v.get("only_b") or []))
        return {"c21_flip": m_flip}
