"""C04 — editor query modes never crash or hang, whatever row is asked about."""
import re

from hypothesis import strategies as st

from .. import corpus, mutate, out, run
from ..engine import Prop, Verdict

MODES = ["--suggest", "--hover", "--define"]


def bad_lines(text, file, mode):
    """Lines that are neither a well-formed %/@/$ record nor a diagnostic/hint for the target file."""
    bad = []
    if not text:
        return bad
    lines = text.split("\n")
    if lines[-1] == "":
        lines.pop()
    pe = file + ":::"
    for l in lines:
        if l.startswith("%"):
            parts = l[1:].split(":::")
            if mode == "--define":
                ok = len(parts) == 5 and parts[4].isdigit()
                # printAllClasses-style records may also appear
                ok = ok or len(parts) == 2 or len(parts) == 3
            else:
                ok = len(parts) in (2, 3) or len(parts) > 3   # detail/document may themselves contain ':::'? no: keep strict below
                ok = len(parts) in (2, 3)
            if not ok:
                bad.append(l)
        elif l.startswith("@"):
            rest = l[1:]
            if rest.startswith(pe):
                r = rest[len(pe):].split(":::", 1)
                if not (r[0].isdigit()):
                    bad.append(l)
            elif len(rest.split(":::")) != 2:
                bad.append(l)
        elif l.startswith("$"):
            if len(l[1:].split(":::")) != 4:
                bad.append(l)
        elif l.startswith(pe):
            r = l[len(pe):].split(":::", 1)
            if len(r) != 2 or not r[0].isdigit():
                bad.append(l)
        else:
            bad.append(l)
    return bad


def row_kind(src, row):
    lines = src.split("\n")
    n = len(lines) - (1 if src.endswith("\n") else 0)
    if row <= 0:
        return "row<=0"
    if row > n:
        return "past-eof"
    l = lines[row - 1].strip()
    if not l:
        return "blank"
    if l.startswith("#"):
        return "comment"
    if l.endswith((".", ",", "(", "+", "=", "&&", "||", "|")) or l.count("(") != l.count(")"):
        return "mid-expression"
    return "code"


class Check(Prop):
    ID = "C04"
    RULE = ("cases = (source bytes, mode in {--suggest,--hover,--define}, --row=N with N from 0 to lines+2); enumerated: a fixed corpus "
            "subset x all three modes x rows {0,1,middle,last,last+1,last+2}, every row of small programs with safe navigation on nil/unknown receivers, one query per program of the shipped-call sweep (every configured method x 15 argument lists; thorough: every row); generated: complete grammar-generated programs, calls of shipped configured methods, corpus programs, their line/token prefixes and "
            "token mutants, cyclic class/module hierarchies and value cycles x mode x row (rows drawn over the whole range, row kinds labelled: row<=0, blank, comment, mid-expression, code, "
            "past-eof). Oracle: no panic/fatal error/non-zero exit, no believed watchdog timeout, and every stdout line is a well-formed "
            "%.../@.../$... record or a diagnostic line of the target file. Non-trivial = row inside the file holding >= 1 token; "
            "distinct by (SHA-1(program), mode, row).")
    ASSUMPTIONS = (
        "in-process candidates are re-run on the guard-off ti binary before being reported",
        "a hang is believed only after 3/3 `timeout` on an exclusively held machine, and only if every one of the three runs burnt >= 0.3 s CPU itself (a descheduled fast run has not) or the in-process rounds do not finish within 8 s either",
    )
    BUDGET = {"quick": 2400, "thorough": 40000}
    WALL = {"quick": 150, "thorough": 1500}

    def __init__(self, *a):
        Prop.__init__(self, *a)
        self.progs = corpus.plain(self.repo)
        self.texts = mutate.Texts(p.l1 for p in self.progs if len(p.l1) < 6000)

    def explicit(self):
        n = 40 if self.tier == "quick" else 300
        step = max(1, len(self.progs) // n)
        for p in self.progs[::step][:n]:
            nl = p.l1.count("\n")
            for mode in MODES:
                for row in sorted(set([0, 1, max(1, nl // 2), nl, nl + 1, nl + 2])):
                    yield {"src": p.l1, "mode": mode, "row": row, "origin": "enum:" + p.name}
        # seed-independent cyclic hierarchies: every row of a few fixed programs in all three modes
        rings = [
            "module Ca\n  include Cb\n  def m0\n    0\n  end\nend\nmodule Cb\n  include Ca\n  def m1\n    1\n  end\nend\nclass Host\n  include Ca\nend\nh = Host.new\nh\nHost\nh.m0\n",
            "module Ca\n  extend Cb\nend\nmodule Cb\n  extend Ca\nend\nclass Host\n  extend Ca\n  include Cb\nend\nHost\nh = Host.new\nh.\nHost.\n",
            "module Ca\n  include Ca\n  extend Ca\nend\nclass Host\n  include Ca\n  extend Ca\nend\nx = Host.new\nx\nHost\n",
            "class Ca < Cb\nend\nclass Cb < Cc\n  include Md\nend\nclass Cc < Ca\nend\nmodule Md\n  include Md\nend\ny = Ca.new\ny\nCa\ny.zz\n",
        ]
        for s in rings:
            for mode in MODES:
                for row in range(1, s.count("\n") + 2):
                    yield {"src": s, "mode": mode, "row": row, "origin": "enum:ring"}
        # safe navigation and other calls whose method or receiver resolves to nothing, on the queried row
        for s in ["x = nil\nx&.foo\n", "x = nil\ny = x&.to_s\ny.\n", "a = true ? nil : 1\na&.abs\na&.nope\n", "nil&.to_s\n", "q&.r\n",
                  "def f(a)\n  a&.size\nend\nf(nil)\n", "x = nil\nx.foo\nx&.foo.bar\n"]:
            for mode in MODES:
                for row in range(0, s.count("\n") + 2):
                    yield {"src": s, "mode": mode, "row": row, "origin": "enum:safe-nav"}
        # one query per program of the shipped-call sweep (every configured method x 15 argument lists); thorough: every row
        from .. import shipped
        for i, src in enumerate(shipped.enumerated_programs(self.repo, per_program=12)):
            nl = src.count("\n")
            rows = range(1, nl + 1) if self.tier == "thorough" else [(i * 7) % nl + 1]
            for row in rows:
                yield {"src": src, "mode": MODES[(i + row) % len(MODES)], "row": row, "origin": "enum:shipped-calls"}
        for s in ["x.", "x.\n", "[1].", "\"Abc\".", "A.new.", "class A\nend\nA.", "", "\n", "1.\n2.", "def a\nend\na.", "@a.", "$a.", "x = nil\nx."]:
            for mode in MODES:
                for row in (0, 1, 2, 3):
                    yield {"src": s, "mode": mode, "row": row, "origin": "enum:tiny"}

    def strategy(self):
        texts = self.texts

        @st.composite
        def case(draw):
            kind = draw(st.integers(0, 16))
            if kind >= 15:
                from .. import shipped
                src = draw(shipped.strategy(self.repo))
            elif kind >= 13:
                # complete generated programs (safe navigation, blocks, case/in, classes): the cursor may sit on any of their rows
                from .. import rb
                src = rb.render(draw(rb.program(max_stmts=8, case_in=True, rich=True))["tree"])
            elif kind >= 10:
                # cyclic hierarchies (superclass / include / extend rings) followed by calls: the ancestor walks of the query modes
                from .c02 import cyclic, value_cycles
                src = draw(st.one_of(cyclic(), cyclic(), value_cycles()))
            elif kind <= 3:
                src = texts[draw(st.integers(0, len(texts) - 1))]
            elif kind <= 6:
                src = draw(mutate.prefix_of(texts))
            elif kind <= 8:
                src = draw(mutate.mutated(texts))
            else:
                src = draw(mutate.fragments())
            nl = src.count("\n") + 1
            row = draw(st.one_of(st.integers(0, nl + 2), st.sampled_from([0, 1, nl - 1, nl, nl + 1, nl + 2]).map(lambda r: max(0, r)),
                                 st.integers(-3, 100000)))
            if draw(st.integers(0, 5)) == 0 and 1 <= row <= nl:
                # put the cursor on a line ending in a dot
                lines = src.split("\n")
                lines[row - 1] = lines[row - 1].rstrip() + "."
                src = "\n".join(lines)
            return {"src": src, "mode": draw(st.sampled_from(MODES)), "row": row}
        return case()

    def sample(self, case):
        return {"src": case["src"][:300], "mode": case["mode"], "row": case["row"]}

    def evaluate(self, case, rt):
        src, mode, row = case["src"], case["mode"], case["row"]
        flags = [mode, "--row=%d" % row]
        o, fn = rt.run_src(src, flags, latin1=True, keep=True)
        sb = rt.sandbox()
        try:
            if o.kind == "dead":
                o = rt.runner.run(sb, fn, flags, force_blackbox=True)
            rk = row_kind(src, row)
            labels = [mode, rk]
            nontrivial = rk in ("code", "mid-expression")
            key = run.sha(src, mode, str(row))
            if o.kind in ("timeout", "hard"):
                believed, last = rt.runner.believed_hang(sb, fn, flags)
                if not believed:
                    return Verdict(None, labels + ["inconclusive-load"], nontrivial, key, discard="load")
                frames, _ = rt.runner.hang_site(sb, fn, flags)
                site = next((f for f in frames if f.startswith(("ti/eval", "ti/cmd"))), frames[0] if frames else "unknown")
                return Verdict({"what": "hang in %s with %s" % (site, " ".join(flags)), "site": site, "frames": frames[:25], "kind": "hang"},
                               labels + ["hang"], nontrivial, key)
            if o.kind == "crash":
                site = run.panic_site(o.detail)
                kind = run.panic_kind(o.detail)
                return Verdict({"what": "crash %s at %s with %s" % (kind, site, " ".join(flags)), "site": site, "kind": kind,
                                "status": o.status, "detail": o.detail[:1500]}, labels + ["crash"], nontrivial, key)
            bad = bad_lines(o.out, fn, mode)
            if bad:
                return Verdict({"what": "malformed record with %s: %r" % (" ".join(flags), bad[0][:200]), "format": True,
                                "bad_line": bad[0][:300]}, labels + ["bad-line"], nontrivial, key)
            if o.out:
                labels.append("has-output")
            return Verdict(None, labels, nontrivial, key)
        finally:
            sb.remove(fn)

    def matchers(self):
        def site(case, v, params):
            return params.get("site") in (v.get("frames") or [v.get("site")]) and (not params.get("kind") or v.get("kind") == params["kind"])

        def fmt(case, v, params):
            return bool(v.get("format")) and re.search(params["pattern"], v.get("bad_line", "")) is not None
        return {"c04_site": site, "c04_format": fmt}
