"""C27 — same-named classes in different namespaces do not interfere."""
import re

from hypothesis import strategies as st

from .. import meta, run
from ..engine import Prop, Verdict
from . import c16


def decoy_lines(name, frame, k):
    """A same-named class elsewhere, with different methods and (optionally) another parent."""
    body = ["class %s" % name, "  def decoy_only_%d" % k, "    [:decoy]", "  end", "  def initialize(a, b, c, d)", "  end", "end"]
    if frame:
        return ["module %s" % frame] + ["  " + l for l in body] + ["end"]
    return body


class Check(Prop):
    ID = "C27"
    RULE = ("cases = (self-contained generated class group, wrapping, decoy). Groups come from C16's hierarchy generator (superclass "
            "chains, included/extended modules, initialize, class methods, visibility, reopening; no collision names). Variants: A = the "
            "group at top level; B = the same group wrapped in one to three modules (Mm, Mm::Nn, Mm::Nn::Pp) with the outside references "
            "qualified; C = B plus a decoy class that has the short name of one of the group's classes but different methods and "
            "initialize arity, placed at top level, in another module or in an enclosing namespace of the group, before or after the group; half of the groups keep their last classes in a namespace of their own (module Inn) that names the rest of the group without qualification. Oracle: for every probe (instance "
            "call, class call, K.new arity) the records on the probe's row are the same in A, B and C once the qualifying prefix is "
            "stripped from messages; the multiset of all other diagnostics is equal; `--extends --class=K` prints the same parents modulo "
            "prefix for A and B. Non-trivial = the group uses inheritance or include/extend and has >= 1 probe with output; distinct by "
            "SHA-1.")
    ASSUMPTIONS = (
        "the group is self-contained: it references no class outside itself",
        "crashing/hanging runs are discarded here and counted",
    )
    BUDGET = {"quick": 1200, "thorough": 20000}
    WALL = {"quick": 150, "thorough": 1500}

    def strategy(self):
        @st.composite
        def case(draw):
            h = draw(c16.hierarchy())
            h["wrap"] = None
            for d in h["classes"]:
                if d["name"] in c16.NAMES_COLL:
                    d["name_orig"] = d["name"]
            if h.get("coll"):
                # collisions with configured names are C16/C20's business
                old = h["classes"][0]["name"]
                new = "Golfy"
                for d in h["classes"]:
                    if d["name"] == old:
                        d["name"] = new
                    if d["parent"] == old:
                        d["parent"] = new
                    d["imeths"] = [[m[0].replace(old.lower(), new.lower()), m[1], m[2]] for m in d["imeths"]]
                    d["cmeths"] = [[m[0].replace(old.lower(), new.lower()), m[1]] for m in d["cmeths"]]
                for p in h["probes"]:
                    if p["cls"] == old:
                        p["cls"] = new
                    if "m" in p:
                        p["m"] = p["m"].replace(old.lower(), new.lower())
                h["coll"] = False
            wrap = draw(st.sampled_from(["Mm", "Mm::Nn", "Mm::Nn", "Mm::Nn::Pp"]))
            h["inner"] = draw(st.integers(1, len(h["classes"]))) if draw(st.booleans()) else 0
            names = [d["name"] for d in h["classes"]]
            decoy = {"name": names[draw(st.integers(0, len(names) - 1))], "frame": draw(st.sampled_from([None, None, "Zz", "Mm"])),
                     "before": draw(st.booleans()), "k": draw(st.integers(1, 9))}
            return {"h": h, "wrap": wrap, "decoy": decoy}
        return case()

    def sample(self, case):
        b = dict(case["h"], wrap=case["wrap"])
        return {"wrapped_program": c16.render_and_model(b)[0], "decoy": case["decoy"]}

    @staticmethod
    def variants(case):
        a = dict(case["h"], wrap=None)
        b = dict(case["h"], wrap=case["wrap"])
        frame = case["decoy"]["frame"]
        if frame == "Mm" and case["wrap"] == "Mm":
            # a decoy in the group's own namespace would reopen the group's class; in an enclosing namespace it is a decoy
            frame = None
        dl = decoy_lines(case["decoy"]["name"], frame, case["decoy"]["k"])
        c = dict(b)
        c["decoy_before" if case["decoy"]["before"] else "decoy_after"] = dl
        return a, b, c

    def evaluate(self, case, rt):
        a, b, c = self.variants(case)
        (sa, ea), (sb_, eb), (sc, ec) = c16.render_and_model(a), c16.render_and_model(b), c16.render_and_model(c)
        key = run.sha(sa, sb_, sc)
        h = case["h"]
        uses_inh = any(d["parent"] or d["inc"] or d["ext"] for d in h["classes"])
        labels = ["wrap:" + case["wrap"], "decoy:" + ("top" if not case["decoy"]["frame"] else "module") + (":before" if case["decoy"]["before"] else ":after")]
        if uses_inh:
            labels.append("inheritance")
        prefix = case["wrap"] + "::"

        def strip(t):
            return t.replace(prefix, "").replace(case["wrap"].split("::")[0] + "::", "")
        try:
            ra, rb_, rc = meta.analyse(rt, sa, []), meta.analyse(rt, sb_, []), meta.analyse(rt, sc, [])
        except meta.Discard as d:
            return meta.discard_verdict(d, labels, key)

        def by_probe(recs, exp):
            rows = [e[0] for e in exp]
            per = [sorted(strip(t) for k, r, t in recs if r == row) for row in rows]
            rest = sorted(strip(t) for k, r, t in recs if r not in rows)
            return per, rest
        pa, resta = by_probe(ra, ea)
        pb, restb = by_probe(rb_, eb)
        pc, restc = by_probe(rc, ec)
        nontrivial = uses_inh and any(pa)
        for name, pp, rest, src in (("wrapped", pb, restb, sb_), ("wrapped+decoy", pc, restc, sc)):
            for i, (x, y) in enumerate(zip(pa, pp)):
                if x != y:
                    return Verdict({"what": "%s differs from top-level on probe %d (%s): top-level %s, %s %s" % (name, i, ea[i][3], x, name, y),
                                    "variant": name, "why": ea[i][3], "top_level_program": meta.with_rows(sa), "variant_program": meta.with_rows(src)},
                                   labels + ["mismatch"], nontrivial, key)
            if rest != resta:
                return Verdict({"what": "%s differs from top-level outside the probes: %s vs %s" % (name, resta[:4], rest[:4]), "variant": name, "why": "rest",
                                "top_level_program": meta.with_rows(sa), "variant_program": meta.with_rows(src)}, labels + ["mismatch"], nontrivial, key)
        # --extends
        k = h["classes"][-1]["name"]
        sbx = rt.sandbox()
        fa = sbx.write(sa)
        fb = sbx.write(sb_)
        try:
            oa = rt.runner.run(sbx, fa, ["--extends", "--class=%s" % k])
            ob = rt.runner.run(sbx, fb, ["--extends", "--class=%s" % k])
        finally:
            sbx.remove(fa)
            sbx.remove(fb)
        if oa.kind == "ok" and ob.kind == "ok":
            la = sorted(strip(l) for l in oa.out.split("\n") if l)
            lb = sorted(strip(l) for l in ob.out.split("\n") if l)
            if la != lb:
                return Verdict({"what": "--extends --class=%s: top-level %s, wrapped %s" % (k, la, lb), "variant": "extends", "why": "extends",
                                "top_level_program": meta.with_rows(sa), "variant_program": meta.with_rows(sb_)}, labels + ["mismatch"], nontrivial, key)
        return Verdict(None, labels, nontrivial, key)

    def matchers(self):
        def m_variant(case, v, params):
            return v.get("variant") == params.get("variant") and re.fullmatch(params.get("why_pattern", ".*"), v.get("why") or "") is not None
        return {"c27_variant": m_variant}
