"""C11 — independent code does not change the analysis of other code."""
import re

from hypothesis import strategies as st

from .. import corpus, meta, rb, run, shipped
from ..engine import Prop, Verdict

# hand-written fragments with the shapes the property names (conditionals with narrowing, blocks on array literals,
# builtin calls on union receivers, statements that start with an array literal); identifiers are zq-prefixed
FIXED_FRAGMENTS = [
    ["zq1 = true ? 1 : nil", "if zq1.nil?", "  zq2 = 1", "else", "  zq2 = zq1 + 1", "end"],
    ["zq3 = [1, 2]", "zq3.each do |zq4|", "  zq4.to_s", "end"],
    ["[1, 2].each do |zq5|", "  zq5.to_s", "end"],
    ["zq6 = true ? 1 : \"s\"", "zq7 = zq6 * 2"],
    ["zq8 = true ? \"a\" : 2", "zq9 = 2", "zq10 = zq8 * zq9", "zq11 = zq9 * zq9"],
    ["zq12 = [1, \"a\"]", "zq12.push(:s)", "zq13 = zq12.first"],
    ["zq14 = {a: 1}", "zq15 = zq14[:a]", "zq14[:b] = \"s\""],
    ["zq16 = true ? nil : \"s\"", "unless zq16.nil?", "  zq16.upcase", "end"],
    ["zq17 = 3", "while zq17 > 0", "  zq17 = zq17 - 1", "end"],
    ["zq18 = true ? 1 : 2.5", "if zq18.is_a?(Integer) && !zq18.nil?", "  zq18.abs", "end"],
    ["[[1, 2], [3]].each { |zq19| zq19.length }"],
    ["zq20 = \"s\"", "zq21 = zq20 + \"t\"", "zq20.upcase!"],
    ["zq22 = 1", "zq22 += 1", "zq23 = -zq22"],
    ["zq24 = [1, 2].collect do |zq25|", "  zq25.to_s", "end"],
    ["zq26 = nil", "zq26 ||= 5"],
    ["case 1", "when 1", "  zq27 = 2", "else", "  zq27 = \"s\"", "end"],
    # statement modifiers and other one-line forms (their end-of-statement handling differs from the block forms)
    ["zq28 = 0", "zq28 += 1 while zq28 < 3"], ["zq29 = 5", "zq29 -= 1 until zq29 < 1"], ["zq30 = 1", "zq30 = 2 if zq30 == 1"],
    ["zq31 = 1", "zq31 = 3 unless zq31 == 2"], ["zq32 = true ? 1 : nil", "zq33 = zq32.nil? ? 0 : zq32"], ["zq34 = [1, 2].collect { |zq35| zq35.to_s }"],
    ["zq36 = 1; zq37 = 2"], ["zq38 = (1..3)", "for zq39 in zq38", "  zq39.to_s", "end"], ["zq40 = 1", "begin", "  zq40 = 2", "rescue", "  zq40 = 3", "end"],
    ["zq41 = -> (zq42) { zq42 }", "zq41.call(1)"], ["zq43 = \"a\"", "zq44 = \"#{zq43} b\""], ["zq45 = <<~EOS", "  text", "EOS"],
    # one diagnostic inside each kind of body: the body must still end at its own end
    ["begin", "  100.zqnope", "rescue => zq50", "  zq51 = 2", "end"], ["begin", "  zq52 = 1", "rescue", "  100.zqnope", "ensure", "  zq53 = 2", "end"],
    ["if 1 == 2", "  100.zqnope", "elsif 1 == 3", "  zq54 = 1", "else", "  zq54 = 2", "end"], ["unless 1 == 2", "  zq55 = 1", "else", "  100.zqnope", "end"],
    ["zq56 = 0", "until zq56 > 2", "  100.zqnope", "  zq56 += 1", "end"], ["for zq57 in (1..3)", "  zq57.zqnope", "end"],
    ["case 1", "when 1", "  100.zqnope", "when 2", "  zq58 = 1", "else", "  zq58 = 2", "end"],
    ["zq59 = true ? 1 : \"s\"", "case zq59", "in Integer => zq60", "  zq60.zqnope", "in String", "  zq61 = 1", "end"],
    ["zq59 = true ? 1 : \"s\"", "case zq59", "in Integer => zq60", "  if zq60 > 1", "    zq61 = 1", "  end", "in String", "  while false", "  end", "end"],
    ["zq62 = ->(zq63) { zq63.zqnope }", "zq62.call(1)"], ["zq64 = [1, 2].collect do |zq65|", "  zq65.zqnope", "  zq65", "end"],
    ["zq66 = [", "  100.zqnope,", "  2", "]"], ["zq67 = (100.zqnope)", "zq68 = true ? 100.zqnope : 2"], ["zq69 = {a: 100.zqnope, b: 2}"],
    ["zq70 = \"a#{100.zqnope}b\""], ["zq71 = 1", "zq71 = 100.zqnope if zq71 == 1"], ["zq72 = 100.zqnope while false"],
    ["[1].each { }"], ["zq73 = [1, 2].map { }", "zq73.length"], ["zq74 = 1.5.zqnope { }"], ["zq75 = zqnope(1) { 2 }"], ["zq76 = { 2 }"],
    # union receivers of methods whose declared return depends on the receiver (Self, element type): one call must not leave its
    # receiver's types in the shared declaration
    ["zq80 = true ? \"ab\" : [1, 2]", "zq80 * 2"], ["zq81 = true ? [1, 2] : (1..3)", "zq82 = zq81.first", "zq81.max"],
    ["zq83 = true ? [1.5] : {a: 1}", "zq83.length", "zq84 = true ? [1.5] : [:a, :b]", "zq84.shift", "zq84.last"],
    # the two listed findings (known_findings.json) stay exercised
    ["zq85 = [1, 2][0] = 0"], ["zq86 = [1, 2].slice() { |zq87, zq88| zq88 }"],
    ["zq46 = %w(a b)", "zq47 = :sym"], ["zq48 = 1", "zq48 += 1", "zq48 ||= 2", "zq49 = !zq48.nil?"], ["return_zq = 1 if false"],
]


# hand-written hosts whose marked rows (1-based, with the indentation depth of the insertion point) depend on state that a
# statement directly before them could leave behind: every fixed fragment is placed before every marked row
FIXED_HOSTS = [
    ("def pick(flag)\n  if flag\n    [1, 2]\n  else\n    (1..3)\n  end\nend\nitems = pick(true)\ndbtp items\ntotal = 0\nitems.each { |item| dbtp item }\ndbtp total\n",
     [(11, 0), (9, 0)]),
    ("u = true ? [1] : {a: 1}\nu.each do |pa, pb|\n  dbtp pa\nend\nw = [1, \"s\"]\nw.each_with_index do |e, i|\n  dbtp e\n  dbtp i\nend\n", [(2, 0), (6, 0), (7, 1)]),
    ("def g(a, b = 1, *r, k: 2)\n  dbtp a\n  return a if a.nil?\n  dbtp r\n  [a, b]\nend\ndbtp g(1)\ndbtp g(\"s\", 2, 3, k: 4)\n", [(2, 1), (3, 1), (5, 1), (7, 0)]),
    ("class Kq\n  attr_reader :v\n  def initialize(v = 1)\n    @v = v\n  end\n  private\n  def hid\n    @v\n  end\nend\nq = Kq.new\ndbtp q.v\nq.hid\n", [(4, 2), (8, 2), (11, 0), (13, 0)]),
    ("x = true ? 1 : nil\ncase x\nin Integer => n\n  dbtp n\nin nil\n  dbtp x\nend\ny = x.nil? ? 0 : x\ndbtp y\nif x.is_a?(Integer) && y > 0\n  dbtp x\nend\ndbtp x\n",
     [(2, 0), (4, 1), (8, 0), (10, 0), (11, 1)]),
    ("pa = [\"ab\", \"cd\"]\ndbtp pa * 2\ndbtp pa.shift\ndbtp pa.last\npr = (\"a\"..\"c\")\ndbtp pr.first\ndbtp [\"x\"].max\ndbtp [:s].first\n", [(1, 0), (2, 0), (5, 0), (7, 0)]),
    ("h = {a: 1, b: \"s\"}\nh.each do |k, v|\n  dbtp k\n  dbtp v\nend\nz = h[:a]\ndbtp z\nm = h.merge({c: 1.5}) { |key, o, n| o }\ndbtp m\n", [(2, 0), (3, 1), (6, 0), (8, 0)]),
]


def tokens_of(text):
    return set(re.findall(r"[A-Za-z_]\w*", text))


class Check(Prop):
    ID = "C11"
    RULE = ("cases = (host program, independent fragment, insertion point). Hosts: grammar-generated programs (exact boundaries, incl. bodies "
            "of def/class/if/else/while/blocks) and golden corpus programs (conservative boundaries). Fragments: grammar-generated code "
            "whose identifiers all carry the prefix zq (disjoint from every host identifier), without def/class/module, containing "
            "conditionals with nil?/is_a? narrowing, blocks, array literals and builtin calls on union receivers, plus a fixed list of "
            "hand-written fragments (each of them is also placed before every marked row of six hand-written hosts: union-receiver blocks, guard clauses, case/in, visibility, hash blocks); placement at any boundary that is not the end of its body, or appended as a whole independent "
            "program at the end. Oracle: `ti -i` (plain sampled) records of host+fragment, minus records on the fragment's rows, with rows "
            "after the fragment shifted back, equal the host's records (multisets). Non-trivial = the host has a record after the insertion "
            "point and the fragment contains a conditional, block or union call; distinct by SHA-1.")
    ASSUMPTIONS = (
        "independence precondition is checked on tokens: no identifier of the fragment occurs in the host",
        "crashing/hanging runs are discarded here and counted",
        "violations seen through the in-process server are re-evaluated on the guard-off binary before being reported",
    )
    BUDGET = {"quick": 1800, "thorough": 40000}
    WALL = {"quick": 150, "thorough": 1500}

    def __init__(self, *a):
        Prop.__init__(self, *a)
        self.progs = [p for p in corpus.plain(self.repo) if len(p.text) < 5000 and "\r" not in p.text and "zq" not in p.text]
        self.cb = None

    def _corpus_bounds(self):
        if self.cb is None:
            self.cb = []
            for i, p in enumerate(self.progs):
                bs = corpus.safe_boundaries(p.text)
                lines = p.text.split("\n")
                rows = []
                for r, d in bs:
                    # not the end of a body: the line at the boundary must be an ordinary statement, not a closer/mid clause
                    if r - 1 < len(lines):
                        nxt = lines[r - 1].strip()
                        if nxt and not nxt.startswith(("end", "else", "elsif", "when", "in ", "rescue", "ensure", "}", "]", ")", "#")):
                            rows.append((r, d))
                if rows:
                    self.cb.append((i, rows))
        return self.cb

    def explicit(self):
        n = 30 if self.tier == "quick" else 300
        cb = self._corpus_bounds()
        step = max(1, len(cb) // n)
        for j, (i, rows) in enumerate(cb[::step][:n]):
            p = self.progs[i]
            frag = FIXED_FRAGMENTS[j % len(FIXED_FRAGMENTS)]
            r, d = rows[len(rows) // 2]
            yield {"host": p.text, "row": r, "frag": frag, "indent": d, "origin": "corpus:" + p.name}
            frag2 = FIXED_FRAGMENTS[(j + 5) % len(FIXED_FRAGMENTS)]
            yield {"host": p.text, "row": p.text.count("\n") + 1, "frag": frag2, "indent": 0, "origin": "corpus-append:" + p.name}
        for host, marks in FIXED_HOSTS:
            for row, depth in marks:
                for frag in FIXED_FRAGMENTS:
                    yield {"host": host, "row": row, "frag": frag, "indent": depth, "origin": "fixed-host", "ctx": "fixed"}

    def strategy(self):
        cb = self._corpus_bounds()
        progs = self.progs
        frag_lines = st.one_of(
            rb.fragment(prefix="zq", errors=0.0, max_stmts=4).map(lambda p: rb.render_lines(p["tree"])),
            rb.fragment(prefix="zq", errors=0.05, max_stmts=6).map(lambda p: rb.render_lines(p["tree"])),
            st.sampled_from(FIXED_FRAGMENTS),
            # (calls of shipped configured methods with arbitrary argument lists were a fragment source for a day: they found the
            # hash-literal run-on, the empty-brace-block and the two listed findings, and then kept producing further shapes of
            # rejected calls - `Object.new.yield()`, operator methods in dot form with blocks - faster than they could be told
            # apart from invalid input. Withdrawn here until that is done (DESIGN 9); C01/C02/C04/C12 keep the source, the two
            # listed shapes stay in FIXED_FRAGMENTS.)
            st.lists(st.sampled_from(FIXED_FRAGMENTS), min_size=2, max_size=3).map(lambda xs: [l for i, x in enumerate(xs) for l in
                                                                                           [re.sub(r"zq(\d+)", lambda m: "zq%s_%d" % (m.group(1), i), y) for y in x]]),
        )

        @st.composite
        def gen_case(draw):
            p = draw(rb.program(max_stmts=8, case_in=True))
            tree = p["tree"]
            src = rb.render(tree)
            frag = draw(frag_lines)
            if draw(st.integers(0, 7)) == 0:
                return {"host": src, "row": src.count("\n") + 1, "frag": frag, "indent": 0, "ctx": "append"}
            bs = [b for b in rb.boundaries(tree) if not b[4]]
            path, idx, depth, ctx, _ = bs[draw(st.integers(0, len(bs) - 1))]
            _, row, _ = rb.insert(tree, path, idx, [{"t": "MARK"}])
            return {"host": src, "row": row, "frag": frag, "indent": depth, "ctx": ctx}

        @st.composite
        def corpus_case(draw):
            i, rows = cb[draw(st.integers(0, len(cb) - 1))]
            p = progs[i]
            frag = draw(frag_lines)
            if draw(st.integers(0, 5)) == 0:
                return {"host": p.text, "row": p.text.count("\n") + 1, "frag": frag, "indent": 0, "origin": "corpus-append:" + p.name}
            r, d = rows[draw(st.integers(0, len(rows) - 1))]
            return {"host": p.text, "row": r, "frag": frag, "indent": d, "origin": "corpus:" + p.name}

        return st.one_of(gen_case(), gen_case(), corpus_case())

    def sample(self, case):
        return {"host": case["host"][:400], "row": case["row"], "frag": case["frag"][:12], "origin": case.get("origin", "generated")}

    def evaluate(self, case, rt):
        host, row, frag = case["host"], case["row"], case["frag"]
        ind = "  " * case.get("indent", 0)
        key = run.sha(host, str(row), "\n".join(frag))
        origin = case.get("origin", "generated").split(":")[0]
        labels = [origin, "in-" + case.get("ctx", "corpus" if origin.startswith("corpus") else "?")]
        ftext = "\n".join(frag)
        shared = [t for t in tokens_of(ftext) & tokens_of(host) if t.lower().startswith("zq")]
        if shared:
            # shares a user-level identifier with the host: outside the property's precondition
            return Verdict(None, labels + ["precondition"], False, key, discard="precondition")
        lines = host.split("\n")
        if lines and lines[-1] == "":
            lines.pop()
        flines = [ind + l if l else l for l in frag]
        new = lines[:row - 1] + flines + lines[row - 1:]
        n = len(flines)
        new_src = "\n".join(new) + "\n"
        host_src = "\n".join(lines) + "\n"
        flags = ["-i"] if int(key[:2], 16) % 4 else []
        labels.append("flags:" + (flags[0] if flags else "plain"))
        if any(re.match(r"\s*(if|unless|case|while)\b", l) for l in frag):
            labels.append("frag-conditional")
        if any(" do |" in l or "{ |" in l for l in frag):
            labels.append("frag-block")
        if any("? " in l and " : " in l for l in frag):
            labels.append("frag-union")
        if any(l.lstrip().startswith("[") for l in frag):
            labels.append("frag-starts-with-bracket")
        try:
            base = meta.analyse(rt, host_src, flags)
            got = meta.analyse(rt, new_src, flags)
        except meta.Discard as d:
            return meta.discard_verdict(d, labels, key)
        got2 = [(k, (r - n if r >= row + n else r), t) for k, r, t in got if not (row <= r < row + n)]
        nontrivial = any(r >= row for k, r, t in base) and any(l in labels for l in ("frag-conditional", "frag-block", "frag-union"))
        if row > len(lines):
            nontrivial = bool(base) and any(l in labels for l in ("frag-conditional", "frag-block", "frag-union"))
        if meta.same(base, got2):
            return Verdict(None, labels, nontrivial, key)
        d = meta.diff(base, got2)
        return Verdict({"what": "inserting an independent fragment before row %d changed records outside it: %s" % (row, d), "diff": d,
                        "flags": flags, "new_src": new_src[:4000], "frag": frag}, labels + ["mismatch"], nontrivial, key)

    def matchers(self):
        def m_frag(case, v, params):
            pat = params.get("frag_pattern")
            return bool(pat) and any(re.search(pat, l) for l in case["frag"])
        return {"c11_frag": m_frag}
