"""C03 — tokenizing any text terminates and consumes the whole input."""
import json
import os
import re
import select
import subprocess
import time

from hypothesis import strategies as st

from .. import build as buildmod
from .. import corpus, mutate, run, regress_inputs
from ..engine import Prop, Verdict

FRAGS = ["\"", "'", "#", "%", "<", ">", "=", ".", "&", "|", "!", "+", "-", "/", "0x", "1.", "1_", "..", "...", "&.", "::", "\\",
         "#{", "\n", "\r", "\t", " ", "1", "23", "4.5", "a", "Ab", "_x", ":\"sym", ":s", "@a", "$b", "?", "~", "`", "*", "**", "(", ")",
         "[", "]", "{", "}", ",", ";", "^", "=>", "->", "<<~", "<<~EOS\n", "EOS", "%w", "%i(", "%w[", "=begin", "=end", "é", "日本",
         "﻿", "0b1", "1e5", "-1", "+2", "\x00", "\x7f", "\x80", "\xff", "\xc3", "\xe3\x81", "def", "end", "do", "|x|", "a:", ":a", "?a",
         "1..", "..2", "x.y", "A::B", "@@c", "$1", "<=>", "===", "!~", "=~", "&&=", "||=", "<<", ">>", "**=", "1.e", "1.2.3", "0x", "0xg", "1__2",
         "\"#{\"", "\"\\", "'\\", "#\n", "%\n", "<\n", "%%", "%(", "%)", "% ", "<%", "<<", "<<-", "<<~", "<<~'E'", "\\\n"]

FRAGS = [f.encode("utf8").decode("latin-1") if any(ord(c) > 255 for c in f) else f for f in FRAGS] + ["\xc3\xa9"]


class LexProbe:
    def __init__(self, binary, cwd, timeout=1.0):
        self.binary = binary
        self.cwd = cwd
        self.timeout = timeout
        self.pr = None
        self.spawns = 0

    def _spawn(self):
        self.pr = subprocess.Popen([self.binary], stdin=subprocess.PIPE, stdout=subprocess.PIPE, stderr=subprocess.PIPE,
                                   cwd=self.cwd, preexec_fn=run._lim)
        self.spawns += 1

    def ask(self, path):
        """Returns (kind, result) with kind in ok|hang|dead."""
        if self.pr is None or self.pr.poll() is not None:
            self._spawn()
        try:
            self.pr.stdin.write((path + "\n").encode())
            self.pr.stdin.flush()
        except (BrokenPipeError, OSError):
            self.kill()
            return "dead", None
        deadline = time.monotonic() + self.timeout
        buf = b""
        fd = self.pr.stdout.fileno()
        while not buf.endswith(b"\n"):
            t = deadline - time.monotonic()
            if t <= 0:
                self.kill()
                return "hang", None
            r, _, _ = select.select([fd], [], [], t)
            if not r:
                self.kill()
                return "hang", None
            c = os.read(fd, 65536)
            if not c:
                err = b""
                try:
                    err = self.pr.stderr.read() or b""
                except Exception:
                    pass
                self.kill()
                return "dead", err.decode("utf8", "replace")
            buf += c
        try:
            return "ok", json.loads(buf.decode("utf8", "replace"))
        except ValueError:
            return "dead", buf.decode("utf8", "replace")

    def kill(self):
        if self.pr is not None:
            try:
                self.pr.kill()
                self.pr.wait()
            except Exception:
                pass
        self.pr = None

    close = kill


def judge(kind, r):
    """Returns None or (what, tag)."""
    if kind == "hang":
        return "lexprobe did not answer within the deadline (tokenizing does not terminate)", "hang"
    if kind == "dead":
        return "lexprobe died: %s" % (str(r)[-400:]), "dead"
    if r.get("err"):
        return None
    if r.get("panic"):
        return "panic while tokenizing/rendering: %s" % r["panic"][:300], "panic"
    if not r["lex_eos"]:
        return "lexer: no end of stream after %d tokens for %d runes" % (r["lex_tokens"], r["runes"]), "unbounded"
    if r["lex_pos"] != r["runes"] or r["lex_pending"] != 0:
        return "lexer: end of stream at rune %d of %d (pending %d)" % (r["lex_pos"], r["runes"], r["lex_pending"]), "unconsumed"
    if r["read_errors"]:
        return "parser: read error on token kind %s (%d times)" % (r["first_err_tok"], r["read_errors"]), "read-error"
    if not r["par_eos"]:
        return "parser: no end of stream within the bound (%d tokens, %d runes)" % (r["par_tokens"], r["runes"]), "par-unbounded"
    if r["par_pos"] != r["runes"]:
        return "parser: end of stream at rune %d of %d" % (r["par_pos"], r["runes"]), "par-unconsumed"
    return None


_UNTERM = re.compile(r"""("[^"\n]*|'[^'\n]*|#[^\n]*|%\w?.?[^\n]*|<|<<[~-]?\w*|=begin[^\0]*)\Z""")


class Check(Prop):
    ID = "C03"
    WANT = ("lexprobe",)
    RULE = ("cases = input texts (code points 0..255 stored, written as bytes; unicode text written as UTF-8): concatenated lexeme "
            "fragments (quotes, %, <, #, heredoc starts, numeric prefixes, NUL, invalid UTF-8), random unicode text, random bytes, byte "
            "prefixes of golden programs, token mutants. Oracle through the lexprobe helper (public reader/lexer/parser API + reader-state "
            "hook): it answers within 1 s; the raw Advance loop reports end of stream within len(runes)+2 calls; at that point the reader "
            "position equals the rune count with nothing pending; the Parser.Read loop reaches end of stream within the same bound, "
            "at the same position, never returns `read error`, and every T renders. Non-trivial = >= 3 tokens and a multi-rune lexeme or an "
            "unterminated construct at EOF; distinct by SHA-1(input).")
    ASSUMPTIONS = (
        "the helper binary is built from the current tree with the guard on; it calls only exported lexer/parser API and the add-only reader-state accessor",
        "a missing answer is re-tried twice on a fresh helper before it is called non-termination",
    )
    BUDGET = {"quick": 6000, "thorough": 90000}
    WALL = {"quick": 150, "thorough": 1200}
    SHARDS = 6

    def __init__(self, *a):
        Prop.__init__(self, *a)
        self.progs = corpus.plain(self.repo)
        self.texts = mutate.Texts(p.l1 for p in self.progs if len(p.l1) < 6000)
        self._lp = {}

    def _probe(self, rt):
        lp = self._lp.get(id(rt))
        if lp is None:
            lp = LexProbe(self.bins.lexprobe, rt.root)
            self._lp[id(rt)] = lp
        return lp

    def explicit(self):
        for s in regress_inputs.HANGERS + regress_inputs.CRASHERS:
            yield {"src": s, "origin": "regress"}
        for s in ["\x00", "a\x00b", "x = 1\x00\ny = 2\n", "`", "`ls`", "x = `a`\n", "\xff\xfe", "\"\xc3", "%", "<", "#", "\"", "'", "1.", "0x",
                  "<<~EOS", "<<~EOS\nabc", "=begin", "=begin\n", ":\"", "?", "\\", "a\r\nb", "\r", "%w", "%w(", "%i[a", "1..", "&.", "::", "@", "@@", "$"]:
            yield {"src": s, "origin": "tiny"}
        n = 25 if self.tier == "quick" else 200
        small = [p for p in self.progs if len(p.l1) <= 400]
        step = max(1, len(small) // n)
        for p in small[::step][:n]:
            t = p.l1
            stride = 1 if self.tier == "thorough" else 3
            for i in range(1, len(t) + 1, stride):
                yield {"src": t[:i], "origin": "byte-prefix:" + p.name}

    def strategy(self):
        texts = self.texts
        frag = st.lists(st.sampled_from(FRAGS), min_size=1, max_size=24).map("".join)
        return st.fixed_dictionaries({"src": st.one_of(
            frag, frag,
            st.text(max_size=60).map(lambda s: s.encode("utf8", "surrogatepass").decode("latin-1")),
            st.binary(max_size=96).map(lambda b: b.decode("latin-1")),
            mutate.prefix_of(texts),
            mutate.mutated(texts),
            st.tuples(mutate.prefix_of(texts), st.sampled_from(FRAGS)).map(lambda x: x[0][-300:] + x[1]),
        )})

    def sample(self, case):
        return {"src": case["src"][:200], "origin": case.get("origin", "generated")}

    def evaluate(self, case, rt):
        src = case["src"]
        sb = rt.sandbox(None)
        fn = sb.write(src.encode("latin-1", "replace"))
        path = os.path.join(sb.dir, fn)
        try:
            lp = self._probe(rt)
            kind, r = lp.ask(path)
            if kind in ("hang", "dead"):
                # believe only what repeats on a fresh helper
                for _ in range(2):
                    k2, r2 = lp.ask(path)
                    if k2 == "ok":
                        kind, r = k2, r2
                        break
            j = judge(kind, r)
            ntok = r.get("lex_tokens", 0) if isinstance(r, dict) else 0
            nontrivial = ntok >= 3 and (bool(_UNTERM.search(src)) or bool(re.search(r"[A-Za-z_]\w|\d\d|[<>=!&|.:*]{2}|\"[^\"]+\"", src)))
            labels = []
            if _UNTERM.search(src):
                labels.append("unterminated-at-eof")
            if not src.endswith("\n"):
                labels.append("no-final-newline")
            if "\x00" in src:
                labels.append("nul")
            if any(ord(c) > 127 for c in src):
                labels.append("non-ascii")
            key = run.sha(src)
            if j is None:
                return Verdict(None, labels, nontrivial, key)
            what, tag = j
            return Verdict({"what": what, "tag": tag, "src": src[:300], "inproc_is_truth": True, "result": r if isinstance(r, dict) else None},
                           labels + [tag], nontrivial, key)
        finally:
            sb.remove(fn)

    def matchers(self):
        def tagm(case, v, params):
            return v.get("tag") == params.get("tag") and re.search(params.get("pattern", ""), case.get("src", "")) is not None
        return {"c03_tag": tagm}


def _hex_src(text):
    m = re.findall(r"hex=([0-9a-f]*);", text)
    if not m:
        return None
    try:
        return bytes.fromhex(m[-1]).decode("latin-1")
    except ValueError:
        return None


def extra_stage(repo, bins, tier, seed):
    """rapid state-free property + native coverage-guided fuzzing of the same predicate, in-process (thorough only)."""
    b = buildmod.build(repo, want=("harness",), quiet=True)
    env = buildmod.go_env()
    res = {"rapid_checks": 0, "fuzz_seconds": 0}
    hd = b.harness
    import shutil
    shutil.rmtree(os.path.join(hd, "testdata"), ignore_errors=True)
    checks = 3000 if tier == "quick" else 200000
    rseed = seed if seed != 0 else 1
    r = subprocess.run(["go", "test", "-tags", "verif", "-run", "^TestLexRapid$", "-count=1", "-timeout", "0",
                        "-rapid.checks=%d" % checks, "-rapid.seed=%d" % rseed, "-rapid.nofailfile", "-v", "."],
                       cwd=hd, env=env, stdout=subprocess.PIPE, stderr=subprocess.STDOUT, text=True)
    out = r.stdout
    m = re.search(r"OK, passed (\d+) tests", out)
    if m:
        res["rapid_checks"] = int(m.group(1))
    if r.returncode != 0:
        if "[rapid] failed" in out or "--- FAIL" in out:
            src = _hex_src(out)
            return res, {"case": {"src": src if src is not None else "", "origin": "rapid"},
                         "violation": {"what": "rapid: " + out[-1500:], "tag": "rapid", "inproc_is_truth": True}, "shrunk": True}
        return res, {"infra": "rapid stage could not run:\n" + out[-1500:]}
    if tier == "thorough":
        secs = int(os.environ.get("VERIF_FUZZ_SECONDS", "240"))
        r = subprocess.run(["go", "test", "-tags", "verif", "-run", "^$", "-fuzz", "^FuzzLex$", "-fuzztime", "%ds" % secs, "."],
                           cwd=hd, env=env, stdout=subprocess.PIPE, stderr=subprocess.STDOUT, text=True)
        res["fuzz_seconds"] = secs
        m = re.findall(r"execs: (\d+)", r.stdout)
        if m:
            res["fuzz_execs"] = int(m[-1])
        if r.returncode != 0:
            crash = _hex_src(r.stdout)
            if crash is not None:
                return res, {"case": {"src": crash, "origin": "native-fuzz"},
                             "violation": {"what": "native fuzz: " + r.stdout[-800:], "tag": "fuzz", "inproc_is_truth": True}, "shrunk": True}
            if "FAIL" in r.stdout and "Failing input" in r.stdout:
                return res, {"case": {"src": "", "origin": "native-fuzz"},
                             "violation": {"what": "native fuzz: " + r.stdout[-800:], "tag": "fuzz", "inproc_is_truth": True}, "shrunk": True}
            return res, {"infra": "fuzz stage could not run:\n" + r.stdout[-1500:]}
    return res, None
