"""C10 — nil?/is_a? narrowing is exact inside branches and undone afterwards."""
import re

from hypothesis import strategies as st

from .. import meta, out as outmod, run
from ..engine import Prop, Verdict

LIT = {"Integer": "1", "String": '"s"', "Float": "1.5", "Symbol": ":a", "NilClass": "nil"}
ORDER = ["Integer", "String", "Float", "Symbol", "NilClass"]
UNRELATED = [["uq1 = [1, 2]", "uq1.each do |ue|", "  ue.to_s", "end"], ["uw2 = 1 + 2"], ["uq3 = 1", "if uq3 == 1", "  uq3 = 2", "end"],
             ["puts(\"s\")"], ["uh4 = {a: 1}", "uh4[:a]"], ["uz5 = true ? 1 : nil", "if uz5.nil?", "  uz5 = 2", "end"], ["us6 = \"a\".upcase"]]


class G:
    def __init__(self, draw, avoid=False):
        self.draw = draw
        self.avoid = avoid      # keep away from the listed finding shapes (they are produced by the witness strategy)
        self.lines = []
        self.expect = []        # (row, var, sorted classes, tag, path of enclosing branch ids)
        self.shapes = set()
        self.path = []
        self.nbranch = 0

    def i(self, a, b):
        return self.draw(st.integers(a, b))

    def pick(self, xs):
        return xs[self.i(0, len(xs) - 1)]

    def emit(self, ind, text):
        self.lines.append("  " * ind + text)

    def probe(self, ind, v, s, tag):
        self.emit(ind, "dbtp %s" % v)
        self.expect.append([len(self.lines), v, sorted(s, key=ORDER.index), tag, list(self.path)])

    def atoms(self, v, cur):
        """Atoms on v whose admitted set is a strict non-empty subset of cur."""
        out = []
        if "NilClass" in cur and len(cur) > 1:
            out.append(("%s.nil?" % v, {"NilClass"}))
            out.append(("!%s.nil?" % v, set(cur) - {"NilClass"}))
        for c in cur:
            if c != "NilClass" and len(cur) > 1:
                out.append(("%s.is_a?(%s)" % (v, c), {c}))
        return out

    def unrelated(self, ind):
        if self.i(0, 2) == 0:
            for l in self.pick(UNRELATED):
                self.emit(ind, l)

    def conditional(self, ind, state, depth, allow_multi=True):
        """Emit one conditional over `state` (var -> set). Returns nothing; state is unchanged afterwards (no branch assigns)."""
        cands = [v for v in state if len(state[v]) > 1]
        if not cands:
            return
        v = self.pick(cands)
        ats = self.atoms(v, state[v])
        a1 = self.pick(ats)
        atoms = [(v, a1)]
        kind = self.pick(["if", "if", "unless"])
        multi = allow_multi and self.i(0, 3) == 0
        if multi and self.avoid:
            kind = "if"
        if multi:
            # && chain with a second atom, on another variable (default) or on the same variable
            same = self.i(0, 3) == 0 and not self.avoid
            if same:
                cur2 = set(a1[1])
                ats2 = [x for x in self.atoms(v, state[v]) if (x[1] & cur2) and x[0] != a1[0]]
                if ats2:
                    atoms.append((v, self.pick(ats2)))
                    self.shapes.add("and-same-var")
            else:
                others = [w for w in cands if w != v]
                if others:
                    w = self.pick(others)
                    atoms.append((w, self.pick(self.atoms(w, state[w]))))
                    self.shapes.add("and-two-vars")
        cond = " && ".join(a[0] for _, a in atoms)
        self.shapes.add(kind)
        cs = "single" if len(atoms) == 1 else ("andsame" if atoms[0][0] == atoms[1][0] else "and2")

        def all_hold(st_):
            ns = dict(st_)
            for w, (txt, adm) in atoms:
                ns[w] = set(ns[w]) & adm
            return ns

        def negated(st_):
            ns = dict(st_)
            if len(atoms) == 1:
                w, (txt, adm) = atoms[0]
                ns[w] = set(ns[w]) - adm
            return ns       # not (A and B) narrows nothing
        then_state = all_hold(state) if kind == "if" else negated(state)
        else_state = negated(state) if kind == "if" else all_hold(state)
        watched = sorted({w for w, _ in atoms})
        self.emit(ind, "%s %s" % (kind, cond))
        self.branch(ind + 1, then_state, watched, depth, "%s-body:%s" % (kind, cs))
        prev_neg = negated(state) if kind == "if" else None
        if kind == "if" and (len(atoms) == 1 or not self.avoid) and self.i(0, 3) == 0:
            # elsif on the same or another variable, evaluated in the state where the first test failed
            cands2 = [w for w in prev_neg if len(prev_neg[w]) > 1]
            if cands2:
                w = self.pick(cands2)
                b = self.pick(self.atoms(w, prev_neg[w]))
                if self.avoid and w == v and b[0].startswith("!") and "is_a?" in atoms[0][1][0]:
                    b = self.atoms(w, prev_neg[w])[0] if not self.atoms(w, prev_neg[w])[0][0].startswith("!") else self.atoms(w, prev_neg[w])[-1]
                # the elsif condition may itself be a chain over a second variable: each condition of an if/elsif ladder is a
                # chain or not on its own
                b2, w2 = None, None
                others2 = [x for x in cands2 if x != w]
                if others2 and not self.avoid and self.i(0, 2) == 0:
                    w2 = self.pick(others2)
                    b2 = self.pick(self.atoms(w2, prev_neg[w2]))
                    self.shapes.add("elsif-chain")
                self.emit(ind, "elsif %s" % (b[0] if b2 is None else b[0] + " && " + b2[0]))
                self.shapes.add("elsif")
                st2 = dict(prev_neg)
                st2[w] = set(prev_neg[w]) & b[1]
                if b2 is not None:
                    st2[w2] = set(prev_neg[w2]) & b2[1]
                self.branch(ind + 1, st2, sorted(set(watched) | {w}), depth, "elsif:%s>%s" % (atoms[0][1][0].split(".", 1)[1].split("(")[0].lstrip("!") + ("!" if atoms[0][1][0].startswith("!") else ""),
                                                                                              ("same:" if w == v else "other:") + b[0].split(".", 1)[1].split("(")[0] + ("!" if b[0].startswith("!") else "")))
                cs = "after-elsif"
                else_state = dict(prev_neg)
                if b2 is None:
                    else_state[w] = set(prev_neg[w]) - b[1]
                watched = sorted(set(watched) | {w} | ({w2} if w2 else set()))
        if self.i(0, 2) > 0 and not (self.avoid and len(atoms) > 1):
            self.emit(ind, "else")
            self.branch(ind + 1, else_state, watched, depth, "%s-else:%s" % (kind, cs))
            self.shapes.add("else")
        self.emit(ind, "end")
        for w in watched:
            self.probe(ind, w, state[w], "after:%s" % cs)

    def branch(self, ind, state, watched, depth, tag):
        self.nbranch += 1
        self.path.append(self.nbranch)
        try:
            self._branch(ind, state, watched, depth, tag)
        finally:
            self.path.pop()

    def _branch(self, ind, state, watched, depth, tag):
        for w in watched:
            if state[w]:
                self.probe(ind, w, state[w], tag + "-start")
        self.unrelated(ind)
        if depth < 3 and self.i(0, 2) == 0:
            self.shapes.add("nested")
            self.conditional(ind, {k: set(v) for k, v in state.items() if v}, depth + 1)
        if self.i(0, 1) == 0:
            self.unrelated(ind)
        for w in watched:
            if state[w]:
                self.probe(ind, w, state[w], tag + "-end")
        if not any(state[w] for w in watched):
            self.emit(ind, "uw9 = 0")


@st.composite
def narrowing_program(draw, avoid=False):
    g = G(draw, avoid)
    state = {}
    nv = draw(st.integers(1, 3))
    for k in range(nv):
        v = "xyz"[k]
        n = draw(st.integers(2, 4))
        idx = draw(st.lists(st.integers(0, 4), min_size=n, max_size=n, unique=True))
        cl = [ORDER[i] for i in idx]
        g.emit(0, "%s = true ? %s : %s" % (v, LIT[cl[0]], LIT[cl[1]]))
        for c in cl[2:]:
            g.emit(0, "%s = true ? %s : %s" % (v, v, LIT[c]))
        state[v] = set(cl)
        g.probe(0, v, state[v], "init")
    for _ in range(draw(st.integers(1, 2))):
        g.conditional(0, {k: set(v) for k, v in state.items()}, 1)
    return {"lines": g.lines, "expect": g.expect, "shapes": sorted(g.shapes)}


class Check(Prop):
    ID = "C10"
    RULE = ("cases = generated programs with 1-3 variables of union type (2-4 variants out of Integer, String, Float, Symbol, NilClass, built "
            "with ternaries), 1-2 top-level conditionals, each if/unless with an optional elsif and else, conditions x.nil?, !x.nil?, "
            "x.is_a?(C) alone or joined by && (second atom on another variable, or on the same variable), nesting up to depth 3 (inner "
            "conditionals narrow the same or other variables from the already narrowed state), unrelated statements (assignments, blocks, "
            "inner conditionals on other variables) in branches. Oracle: `dbtp v` at the start and end of every branch equals the "
            "set-theoretic model (if: v cap admits; else / unless body: v minus admits for a single atom, unchanged for a multi-atom "
            "chain; elsif: evaluated where the earlier test failed); `dbtp v` after `end` equals the pre-conditional type (no branch "
            "assigns v). Types compared as sets. Non-trivial = a branch whose admitted set is a strict non-empty subset; distinct by "
            "SHA-1(program).")
    ASSUMPTIONS = (
        "atoms whose admitted set would be empty or the whole set are not generated (the property speaks about the variants a branch admits)",
        "statement-modifier conditionals are not generated",
        "crashing/hanging runs are discarded here and counted",
    )
    BUDGET = {"quick": 2500, "thorough": 40000}
    WALL = {"quick": 150, "thorough": 1500}

    def strategy(self):
        # 3 of 4 cases keep away from the listed finding shapes so that the search continues behind them;
        # the rest keeps producing them (live reproduction of every KNOWN-FINDING line)
        return st.one_of(narrowing_program(avoid=True), narrowing_program(avoid=True), narrowing_program(avoid=True), narrowing_program())

    def sample(self, case):
        return {"program": "\n".join(case["lines"]), "shapes": case["shapes"]}

    def evaluate(self, case, rt):
        src = "\n".join(case["lines"]) + "\n"
        key = run.sha(src)
        labels = list(case.get("shapes", []))
        try:
            recs = meta.analyse(rt, src, [])
        except meta.Discard as d:
            return meta.discard_verdict(d, labels, key)
        by_row = {}
        for k, r, t in recs:
            by_row.setdefault(r, []).append(t)
        nontrivial = any(ex[3] != "init" and not ex[3].startswith("after") for ex in case["expect"])
        from .. import findings as findingsmod
        listed = [e["params"]["tag_pattern"] for e in findingsmod.entries_for("C10") if e.get("params", {}).get("tag_pattern")]
        tainted = []            # branch paths whose state is wrong because of a listed finding: dependent probes are not examined
        first_listed = None
        for ex in case["expect"]:
            row, v, exp, tag = ex[:4]
            path = ex[4] if len(ex) > 4 else None
            if path is not None and any(path[:len(t)] == t for t in tainted):
                continue
            got = by_row.get(row)
            if not got:
                return Verdict({"what": "no dbtp output on row %d (%s, %s)" % (row, v, tag), "row": row, "tag": tag, "program": src}, labels + ["mismatch"], nontrivial, key)
            try:
                g = outmod.parse_type(got[-1])
            except outmod.TypeParseError:
                g = frozenset([got[-1]])
            if g != frozenset(exp):
                vd = Verdict({"what": "row %d `dbtp %s` (%s): expected %s, ti reports %s" % (row, v, tag, exp, got[-1]), "row": row, "tag": tag,
                              "expected": exp, "got": got[-1], "var": v, "program": meta.with_rows(src), "shapes": case.get("shapes")},
                             labels + ["mismatch", "tag:" + tag], nontrivial, key)
                if path is not None and path and any(re.fullmatch(pt, tag) for pt in listed):
                    # a listed finding inside branch `path`: everything nested in that branch depends on the wrong state
                    tainted.append(path)
                    if first_listed is None:
                        first_listed = vd
                    continue
                return vd
        if first_listed is not None:
            return first_listed
        return Verdict(None, labels, nontrivial, key)

    def matchers(self):
        def m_tag(case, v, params):
            return re.fullmatch(params["tag_pattern"], v.get("tag") or "") is not None
        return {"c10_tag_shape": m_tag}
