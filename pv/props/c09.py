"""C09 — inferred types agree with literals and declared return types."""
import json
import os

from hypothesis import strategies as st

from .. import meta, out as outmod, run
from ..engine import Prop, Verdict

CFG = {
    "array.json": {"frame": "Builtin", "class": "Array", "instance_methods": [
        {"name": "push", "arguments": [{"type": ["Untyped"]}], "return_type": {"type": ["Array"]}},
        {"name": "[]", "arguments": [{"type": ["Int"]}], "return_type": {"type": ["Unify"]}},
        {"name": "[]=", "arguments": [{"type": ["Int"]}, {"type": ["Untyped"]}], "return_type": {"type": ["Untyped"]}},
        {"name": "v_unify", "arguments": [], "return_type": {"type": ["Unify"]}},
        {"name": "v_opt", "arguments": [], "return_type": {"type": ["OptionalUnify"]}},
        {"name": "v_self", "arguments": [], "return_type": {"type": ["Self"]}},
        {"name": "v_arg", "arguments": [{"type": ["Untyped"]}], "return_type": {"type": ["Argument"]}},
        {"name": "v_len", "arguments": [], "return_type": {"type": ["Int"]}},
        {"name": "v_un", "arguments": [], "return_type": {"type": ["Int", "String"]}}], "class_methods": []},
    "hash.json": {"frame": "Builtin", "class": "Hash", "instance_methods": [
        {"name": "[]", "arguments": [{"type": ["Untyped"]}], "return_type": {"type": ["Unify"]}},
        {"name": "[]=", "arguments": [{"type": ["Untyped"]}, {"type": ["Untyped"]}], "return_type": {"type": ["Untyped"]}},
        {"name": "v_vals", "arguments": [], "return_type": {"type": ["KeyValueArray"]}},
        {"name": "v_unify", "arguments": [], "return_type": {"type": ["Unify"]}}], "class_methods": []},
    "tq.json": {"frame": "Builtin", "class": "Tq", "instance_methods": [
        {"name": "me", "arguments": [], "return_type": {"type": ["Self"]}},
        {"name": "num", "arguments": [{"type": ["Int"]}], "return_type": {"type": ["Float"]}},
        {"name": "opt", "arguments": [], "return_type": {"type": "?String"}},
        {"name": "arr", "arguments": [], "return_type": {"type": "[Int]"}},
        {"name": "sarr", "arguments": [], "return_type": {"type": ["SelfArray"]}},
        {"name": "un3", "arguments": [], "return_type": {"type": ["Int", "Float", "NilClass"]}},
        {"name": "echo", "arguments": [{"type": ["Untyped"]}], "return_type": {"type": ["Argument"]}}],
        "class_methods": [{"name": "new", "arguments": [], "return_type": {"type": ["Tq"]}}]},
    "integer.json": {"frame": "Builtin", "class": "Integer", "instance_methods": [{"name": "to_s", "arguments": [], "return_type": {"type": ["String"]}}], "class_methods": []},
    "string.json": {"frame": "Builtin", "class": "String", "instance_methods": [{"name": "size", "arguments": [], "return_type": {"type": ["Int"]}}], "class_methods": []},
}
SC = [("1", "Integer"), ('"s"', "String"), ("1.5", "Float"), (":a", "Symbol"), ("nil", "NilClass"), ("true", "Bool"), ("Tq.new", "Tq")]


def U(xs):
    return frozenset(xs)


def render(case):
    """Interpret the drawn step list; returns (source, probes). probe = (row, var, modeltype, op).
    Model types: ('s', set) scalar/union, ('a', set of element classes), ('h', {key: class})."""
    env = {}
    order = []
    lines, probes = [], []

    def newvar():
        return "v%d" % len(env)
    for stp in case["steps"]:
        r, x, y, z = stp["r"], stp["x"], stp["y"], stp["z"]
        v = newvar()
        op = None
        if r < 20 or not env:
            e, t = SC[x % len(SC)]
            lines.append("%s = %s" % (v, e))
            env[v] = ("s", U([t]))
            op = "literal"
        elif r < 30:
            i, j = x % len(SC), y % len(SC)
            if i == j:
                j = (j + 1) % len(SC)
            lines.append("%s = true ? %s : %s" % (v, SC[i][0], SC[j][0]))
            env[v] = ("s", U([SC[i][1], SC[j][1]]))
            op = "ternary"
        elif r < 48:
            k = x % 4
            els = [SC[(y + n * (z + 1)) % 6] for n in range(k)]
            lines.append("%s = [%s]" % (v, ", ".join(e for e, _ in els)))
            env[v] = ("a", U(t for _, t in els))
            op = "array-literal"
        elif r < 58:
            k = 1 + x % 3
            keys = ["a", "b", "c", "d"][y % 2:][:k]
            els = [SC[(z + n) % 6] for n in range(len(keys))]
            lines.append("%s = {%s}" % (v, ", ".join("%s: %s" % (kk, e) for kk, (e, _) in zip(keys, els))))
            env[v] = ("h", {kk: t for kk, (_, t) in zip(keys, els)})
            op = "hash-literal"
        else:
            names = list(env)
            w = names[x % len(names)]
            kind, tt = env[w]
            if kind == "a":
                o = ["idx", "push", "shl", "unify", "opt", "self", "arg", "len", "un", "idx"][y % 10]
                if o == "idx" and tt:
                    lines.append("%s = %s[0]" % (v, w))
                    env[v] = ("s", tt)
                elif o == "push":
                    e, t = SC[z % 6]
                    lines.append("%s.push(%s)" % (w, e))
                    env[w] = ("a", tt | {t})
                    probes.append((len(lines) + 1, w, env[w], "push"))
                    lines.append("dbtp %s" % w)
                    continue
                elif o == "shl":
                    e, t = SC[z % 6]
                    lines.append("%s << %s" % (w, e))
                    env[w] = ("a", tt | {t})
                    probes.append((len(lines) + 1, w, env[w], "shl"))
                    lines.append("dbtp %s" % w)
                    continue
                elif o == "unify" and tt:
                    lines.append("%s = %s.v_unify()" % (v, w))
                    env[v] = ("s", tt)
                elif o == "opt" and tt:
                    lines.append("%s = %s.v_opt()" % (v, w))
                    env[v] = ("s", tt | {"NilClass"})
                elif o == "self":
                    lines.append("%s = %s.v_self()" % (v, w))
                    env[v] = ("a", tt)
                elif o == "arg":
                    e, t = SC[z % len(SC)]
                    lines.append("%s = %s.v_arg(%s)" % (v, w, e))
                    env[v] = ("s", U([t]))
                elif o == "len":
                    lines.append("%s = %s.v_len()" % (v, w))
                    env[v] = ("s", U(["Integer"]))
                elif o == "un":
                    lines.append("%s = %s.v_un()" % (v, w))
                    env[v] = ("s", U(["Integer", "String"]))
                else:
                    continue
                op = o
            elif kind == "h":
                o = ["key", "vals", "store", "key"][y % 4]
                if o == "key":
                    kk = sorted(tt)[z % len(tt)]
                    lines.append("%s = %s[:%s]" % (v, w, kk))
                    env[v] = ("s", U([tt[kk]]))
                elif o == "vals":
                    lines.append("%s = %s.v_vals()" % (v, w))
                    env[v] = ("a", U(tt.values()))
                else:
                    e, t = SC[z % 6]
                    kk = ["a", "e"][y % 2]
                    lines.append("%s[:%s] = %s" % (w, kk, e))
                    d = dict(tt)
                    d[kk] = t
                    env[w] = ("h", d)
                    continue
                op = "hash-" + o
            else:
                if tt == U(["Tq"]):
                    o = ["me", "num", "opt", "arr", "echo", "un3"][y % 6]
                    if o == "me":
                        lines.append("%s = %s.me()" % (v, w))
                        env[v] = ("s", U(["Tq"]))
                    elif o == "num":
                        lines.append("%s = %s.num(1)" % (v, w))
                        env[v] = ("s", U(["Float"]))
                    elif o == "opt":
                        lines.append("%s = %s.opt()" % (v, w))
                        env[v] = ("s", U(["String", "NilClass"]))
                    elif o == "arr":
                        lines.append("%s = %s.arr()" % (v, w))
                        env[v] = ("a", U(["Integer"]))
                    elif o == "sarr":
                        lines.append("%s = %s.sarr()" % (v, w))
                        env[v] = ("a", U(["Tq"]))
                    elif o == "un3":
                        lines.append("%s = %s.un3()" % (v, w))
                        env[v] = ("s", U(["Integer", "Float", "NilClass"]))
                    else:
                        e, t = SC[z % len(SC)]
                        lines.append("%s = %s.echo(%s)" % (v, w, e))
                        env[v] = ("s", U([t]))
                    op = "tq-" + o
                elif tt == U(["Integer"]):
                    lines.append("%s = %s.to_s()" % (v, w))
                    env[v] = ("s", U(["String"]))
                    op = "chain"
                elif tt == U(["String"]):
                    lines.append("%s = %s.size()" % (v, w))
                    env[v] = ("s", U(["Integer"]))
                    op = "chain"
                else:
                    e, t = SC[z % len(SC)]
                    lines.append("%s = %s" % (w, e))
                    env[w] = ("s", U([t]))
                    probes.append((len(lines) + 1, w, env[w], "reassign"))
                    lines.append("dbtp %s" % w)
                    continue
        if v in env:
            probes.append((len(lines) + 1, v, env[v], op or "?"))
            lines.append("dbtp %s" % v)
    for v, t in env.items():
        probes.append((len(lines) + 1, v, t, "final"))
        lines.append("dbtp %s" % v)
    return "\n".join(lines) + "\n", probes


def parse(t):
    t = t.strip()
    if t.startswith("Array<") and t.endswith(">"):
        inner = t[6:-1]
        if "<" in inner:
            return ("?", None)
        return ("a", U([] if inner == "untyped" else inner.split()))
    if t.startswith("Union<") and t.endswith(">"):
        inner = t[6:-1]
        if "<" in inner:
            return ("?", None)
        return ("s", U(inner.split()))
    if t == "Hash":
        return ("h", None)
    return ("s", U([t]))


class Check(Prop):
    ID = "C09"
    RULE = ("cases = generated straight-line programs (4-10 steps) over a fixed small configuration written from docs/ti-config.md "
            "(Array/Hash methods returning Unify, OptionalUnify, Self, Argument, KeyValueArray, Int, Int|String; class Tq with Self, Float, "
            "?String, [Int], a 3-way union and Argument returns): literals of 7 classes, ternary unions, array and hash "
            "literals, indexing by literal index/key, push and << growth, hash stores, chains of valid calls, reassignment. Oracle: a "
            "reference model carries a type per variable (scalar/union set, array element set, hash key->class); `dbtp v` after every "
            "step and for every variable at the end must equal the model structurally (sets, order-insensitive). Nested arrays and "
            "absent hash keys are not generated. A third of the cases instead use C07's generated configurations and call programs: the result of every certainly valid call (also after rejected calls: every call has its own receiver and literal arguments) must have the declared return type with Self and unions resolved, also for union receivers. Non-trivial = an asserted probe whose type comes from a return-type resolution, an "
            "array/hash operation, a union or a reassignment; distinct by SHA-1(program).")
    ASSUMPTIONS = (
        "the configuration is written by hand from the documentation, the model never reads ti's loader",
        "crashing/hanging runs are discarded here and counted",
    )
    BUDGET = {"quick": 2500, "thorough": 40000}
    WALL = {"quick": 150, "thorough": 1500}

    def __init__(self, *a):
        Prop.__init__(self, *a)
        self.files = {k: json.dumps(v) for k, v in CFG.items()}
        for f in ("object.json", "kernel.json"):
            self.files[f] = open(os.path.join(self.repo, "test", ".ti-config", f)).read()

    def strategy(self):
        from .. import callprog
        step = st.fixed_dictionaries({"r": st.integers(0, 99), "x": st.integers(0, 50), "y": st.integers(0, 50), "z": st.integers(0, 50)})
        steps = st.fixed_dictionaries({"steps": st.lists(step, min_size=4, max_size=10)})
        calls = callprog.call_program(valid=True, nest=False, ncalls=(2, 6))
        mixed = callprog.call_program(valid=False, nest=False, ncalls=(3, 7))
        return st.one_of(steps, steps, calls, mixed)

    def sample(self, case):
        if "steps" not in case:
            from .. import callprog
            return {"program": callprog.source(case)}
        return {"program": render(case)[0]}

    def evaluate_calls(self, case, rt):
        """Generated configurations: the result of a certainly valid call has the declared return type (Self and unions resolved)."""
        from .. import callprog, cfg as cfgmod
        src = callprog.source(case)
        files = cfgmod.render_files(case["cfg"])
        vs, model = callprog.verdicts(case)
        key = run.sha(src, json.dumps(files, sort_keys=True))
        labels = ["generated-config"]
        try:
            recs = meta.analyse(rt, src, [], config=files)
        except meta.Discard as d:
            return meta.discard_verdict(d, labels, key)
        by_row = {}
        for k, r, t in recs:
            by_row.setdefault(r, []).append(t)
        nontrivial = False
        for p, v, why, app in vs:
            if v != "MUST_OK":
                # every call has a receiver and arguments of its own (fresh literals), so a rejected call before this one is
                # no excuse: the certainly valid calls after it still get their declared type
                labels.append("after-rejected-call")
                continue
            want = set()
            ok = True
            for c, oks in app:
                # which overload answers is only certain when every other declaration of the method certainly rejects the call
                others = [d for d in model.decls(c, p["m"], p.get("static", False)) if d not in oks]
                if any(model.fits(d, [set(x) for x in p["pos"]], {k: set(x) for k, x in p["kws"].items()})[0] != "ERR" for d in others):
                    ok = False
                    break
                rets = {tuple(sorted(model.return_classes(c, d) or [])) for d in oks}
                if len(rets) != 1 or not next(iter(rets)):
                    ok = False      # several applicable declarations with different returns, or a return kind the model does not cover
                    break
                want |= set(next(iter(rets)))
            if not ok:
                continue
            nontrivial = True
            labels.append("ret:" + ("union" if len(want) > 1 else "single") + (":union-recv" if len(p["R"]) > 1 else ""))
            got = by_row.get(p["dbtp_row"], ["<none>"])[-1]
            try:
                g = outmod.parse_type(got)
            except outmod.TypeParseError:
                g = frozenset([got])
            if g != frozenset(want):
                decls = [d for c in p["R"] for d in model.decls(c, p["m"], p.get("static", False))]
                return Verdict({"what": "row %d: result of %s.%s(...) should be %s, ti reports %s" % (p["dbtp_row"], p["R"], p["m"], sorted(want), got), "op": "configured-return",
                                "probe": p, "decls": decls, "reason": "count", "program": meta.with_rows(src), "config": files}, labels + ["mismatch"], nontrivial, key)
        return Verdict(None, labels, nontrivial, key)

    def evaluate(self, case, rt):
        if "steps" not in case:
            return self.evaluate_calls(case, rt)
        src, probes = render(case)
        key = run.sha(src)
        labels = []
        try:
            recs = meta.analyse(rt, src, [], config=self.files)
        except meta.Discard as d:
            return meta.discard_verdict(d, labels, key)
        by_row = {}
        for k, r, t in recs:
            by_row.setdefault(r, []).append(t)
        nontrivial = any(op not in ("literal", "final") for _, _, _, op in probes)
        for row, v, t, op in probes:
            labels.append("op:" + op)
            got = by_row.get(row, ["<none>"])[-1]
            g = parse(got)
            if t[0] == "h":
                ok = g[0] == "h"
            else:
                ok = (g[0] == t[0] and g[1] == t[1])
            if not ok:
                want = "Hash" if t[0] == "h" else ("Array<%s>" if t[0] == "a" else "%s") % " | ".join(sorted(t[1]))
                return Verdict({"what": "row %d `dbtp %s` (%s): model %s, ti reports %s" % (row, v, op, want, got), "op": op, "var": v,
                                "program": meta.with_rows(src)}, labels + ["mismatch"], nontrivial, key)
        return Verdict(None, labels, nontrivial, key)

    def matchers(self):
        def m_after(case, v, params):
            """A receiver array shows an extra NilClass element after a method with an OptionalUnify return was called on it."""
            src, probes = render(case)
            var = v.get("var")
            return bool(var) and ("%s.v_opt()" % var) in src and "NilClass" in (v.get("what") or "")
        from .c07_matchers import overload_shared_keyword

        def m_rest_trailing(case, v, params):
            """An overload (?a, *r, t) is taken to accept a call that passes fewer positionals than it requires (C07's listed finding),
            so its return type is reported instead of the applicable overload's."""
            p_ = v.get("probe")
            if not p_ or v.get("op") != "configured-return":
                return False
            for d in v.get("decls") or []:
                pos_args = [a for a in d["args"] if not a["key"]]
                ridx = next((i for i, a in enumerate(pos_args) if a["rest"]), None)
                if ridx is None:
                    continue
                before, after = pos_args[:ridx], pos_args[ridx + 1:]
                need = len([a for a in before if not a["default"]]) + len(after)
                if after and len(p_["pos"]) < need:
                    return True
            return False

        def m_shared_kw(case, v, params):
            return v.get("op") == "configured-return" and overload_shared_keyword(case, v, params)
        return {"c09_optional_unify_mutates_receiver": m_after, "c09_rest_trailing_overload": m_rest_trailing, "c09_overload_shared_keyword": m_shared_kw}
