"""C05 — same input, same output (run-to-run determinism)."""
import os
import re

from hypothesis import strategies as st

from .. import corpus, rb, run
from ..engine import Prop, Verdict

GOMAXPROCS = ["1", "2", "4", "16"]
GOGC = ["off", "1", "100"]


def modes_for(src, classes, methods, rows):
    ms = [[], ["-i"], ["--llm-nav"], ["--llm-nav", "--all"], ["--llm-define"], ["--llm-class"]]
    for r in rows[:2]:
        ms += [["--hover", "--row=%d" % r], ["--suggest", "--row=%d" % r], ["--define", "--row=%d" % r]]
    for c in classes[:2]:
        ms += [["--llm-define", "--class=%s" % c], ["--extends", "--class=%s" % c]]
    for m in methods[:2]:
        ms += [["--llm-nav", "--target=%s" % m]]
    return ms


@st.composite
def tie_program(draw):
    """Programs built for ties: equal method names in several classes, the same class name in two frames, overloads by reopening."""
    mnames = ["run", "calc", "make"]
    cnames = ["Kk", "Sub", "Other"]
    lines = []
    nmod = draw(st.integers(0, 2))
    for mi in range(nmod):
        lines.append("module M%s" % "ab"[mi])
        c = draw(st.sampled_from(cnames))
        lines.append("  class %s" % c)
        for m in draw(st.lists(st.sampled_from(mnames), min_size=1, max_size=3, unique=True)):
            np_ = draw(st.integers(0, 2))
            lines += ["    def %s%s(%s)" % ("self." if draw(st.integers(0, 4)) == 0 else "", m, ", ".join("a%d" % i for i in range(np_))),
                      "      %s" % draw(st.sampled_from(["1", '"s"', "a0" if np_ else "nil", "1.5"])), "    end"]
        lines += ["  end", "end"]
    # mixin chains: modules that include/extend other modules and are mixed into classes (several edges per node: ties in
    # every walk and listing over the inheritance map)
    mix = []
    if draw(st.integers(0, 2)) == 0:
        mix = ["Walk", "Swim", "Amph"][:draw(st.integers(2, 3))]
        for i, mname in enumerate(mix):
            lines.append("module %s" % mname)
            for other in mix[:i]:
                k = draw(st.integers(0, 3))
                if k == 0:
                    lines.append("  include %s" % other)
                elif k == 1:
                    lines.append("  extend %s" % other)
            lines += ["  def %s_m" % mname.lower(), "    1", "  end", "end"]
    defined = []
    for c in draw(st.lists(st.sampled_from(cnames), min_size=1, max_size=3, unique=True)):
        parent = ""
        if defined and draw(st.booleans()):
            parent = " < " + draw(st.sampled_from(defined))
        lines.append("class %s%s" % (c, parent))
        for mname in mix:
            k = draw(st.integers(0, 3))
            if k == 0:
                lines.append("  include %s" % mname)
            elif k == 1:
                lines.append("  extend %s" % mname)
        for m in draw(st.lists(st.sampled_from(mnames), min_size=1, max_size=3, unique=True)):
            np_ = draw(st.integers(0, 2))
            body = draw(st.sampled_from(["1", '"s"', "a0" if np_ else "nil", "%s(%s)" % (draw(st.sampled_from(mnames)), "1")]))
            lines += ["  def %s(%s)" % (m, ", ".join("a%d" % i for i in range(np_))), "    %s" % body, "  end"]
        lines.append("end")
        defined.append(c)
    for m in draw(st.lists(st.sampled_from(mnames), min_size=0, max_size=2, unique=True)):
        lines += ["def %s(q)" % m, "  q", "end"]
    calls = []
    for _ in range(draw(st.integers(2, 6))):
        c = draw(st.sampled_from(defined))
        m = draw(st.sampled_from(mnames))
        calls.append(draw(st.sampled_from(["%s.new.%s(1)" % (c, m), "x = %s.new\nx.%s" % (c, m), "%s(2)" % m, "dbtp %s.new.%s(\"s\")" % (c, m),
                                           "Ma::%s.new.%s" % (c, m)])))
    lines += calls
    src = "\n".join(lines) + "\n"
    # the modules come first: modes_for asks --extends / --llm-define for the first two names
    return {"src": src, "classes": (list(reversed(mix)) + defined) if mix and draw(st.booleans()) else defined, "methods": mnames, "origin": "tie-program"}


class Check(Prop):
    ID = "C05"
    WANT = ("ti",)
    SHARDS = 4
    RULE = ("cases = (program, output mode); programs: golden corpus programs, grammar-generated programs and programs built for ties "
            "(equal method names in several classes, one class name in two namespaces, reopened classes, many call sites, modules that include/extend each other and are mixed into the classes) and C10's narrowing programs (several variables narrowed in one conditional); modes: plain, "
            "-i, --hover/--suggest/--define --row=N, --llm-nav, --llm-nav --all, --llm-nav --target=X, --llm-define, --llm-define "
            "--class=X, --llm-class, --extends --class=X. Each case is run k times (quick 4, thorough 8) on the real guard-off binary in "
            "separate processes, cycling GOMAXPROCS in {1,2,4,16} and GOGC in {off,1,100}; every process gets fresh map-iteration "
            "randomisation. Oracle: all runs exit 0 with byte-identical stdout (for --define: identical after sorting lines). "
            "Non-trivial = the output has >= 2 lines; distinct by SHA-1(program, mode). With p the per-run probability of a divergent "
            "order, k runs miss it with probability (1-p)^(k-1).")
    ASSUMPTIONS = (
        "the harness cannot own Go's map-iteration seed or scheduler; it samples them by repetition in fresh processes",
        "a run that prints `timeout` under load is repeated; persistent timeouts are discarded (C02 owns hangs)",
    )
    BUDGET = {"quick": 320, "thorough": 3000}
    WALL = {"quick": 160, "thorough": 1500}

    def __init__(self, *a):
        Prop.__init__(self, *a)
        self.progs = [p for p in corpus.plain(self.repo) if len(p.text) < 4000]
        self.k = 4 if self.tier == "quick" else 8

    def explicit(self):
        n = 8 if self.tier == "quick" else 60
        step = max(1, len(self.progs) // n)
        all_modes = None
        for p in self.progs[::step][:n]:
            classes = re.findall(r"(?m)^\s*class\s+([A-Z]\w*)", p.text)[:2] or ["Integer"]
            methods = re.findall(r"(?m)^\s*def\s+(?:self\.)?([a-z_]\w*)", p.text)[:2]
            nl = p.text.count("\n")
            rows = [max(1, nl // 2), nl]
            for m in modes_for(p.text, classes, methods, rows):
                yield {"src": p.text, "flags": m, "origin": "corpus:" + p.name}

        # seed-independent: mixin chains (modules including/extending modules, mixed into classes) under the modes that list
        # or walk the inheritance map, 10 runs each
        chains = [
            "module Walk\n  def walk\n    1\n  end\nend\nmodule Swim\n  def swim\n    2\n  end\nend\nmodule Amph\n  include Walk\n  extend Swim\n  def both\n    3\n  end\nend\n"
            "class Frog\n  include Amph\nend\nclass Newt < Frog\n  extend Amph\n  include Swim\nend\nf = Frog.new\nf.walk\nf.both\nNewt.both\n",
            "module Aa\n  def a\n    1\n  end\nend\nmodule Bb\n  include Aa\nend\nmodule Cc\n  include Bb\n  include Aa\nend\nclass Kk\n  include Cc\n  extend Bb\nend\nKk.new.a\nKk.a\n",
        ]
        for src in chains:
            names = re.findall(r"(?m)^(?:module|class)\s+([A-Z]\w*)", src)
            for nme in names:
                yield {"src": src, "flags": ["--extends", "--class=%s" % nme], "origin": "mixin-chain", "k": 10}
                yield {"src": src, "flags": ["--llm-define", "--class=%s" % nme], "origin": "mixin-chain", "k": 6}
            for fl in (["--define", "--row=1"], ["--llm-class"], ["--llm-nav", "--all"], ["--suggest", "--row=%d" % src.count("\n")]):
                yield {"src": src, "flags": fl, "origin": "mixin-chain", "k": 6}

    def strategy(self):
        progs = self.progs

        @st.composite
        def case(draw):
            kind = draw(st.integers(0, 11))
            if kind >= 10:
                # conditionals that narrow two variables at once (&& chains, elsif on another variable): map-ordered state
                from .c10 import narrowing_program
                np_ = draw(narrowing_program())
                return {"src": "\n".join(np_["lines"]) + "\n", "flags": draw(st.sampled_from([[], ["-i"]])), "origin": "narrowing"}
            if kind < 5:
                t = draw(tie_program())
                src, classes, methods = t["src"], t["classes"], t["methods"]
                origin = "tie-program"
            elif kind < 8:
                p = draw(rb.program(max_stmts=8))
                src = rb.render(p["tree"])
                classes, methods = p["names"]["class"] or ["Integer"], p["names"]["method"]
                origin = "generated"
            else:
                p = progs[draw(st.integers(0, len(progs) - 1))]
                src = p.text
                classes = re.findall(r"(?m)^\s*class\s+([A-Z]\w*)", src)[:2] or ["String"]
                methods = re.findall(r"(?m)^\s*def\s+(?:self\.)?([a-z_]\w*)", src)[:2]
                origin = "corpus:" + p.name
            nl = max(1, src.count("\n"))
            rows = [draw(st.integers(1, nl)), draw(st.integers(1, nl))]
            ms = modes_for(src, classes, methods, rows)
            return {"src": src, "flags": ms[draw(st.integers(0, len(ms) - 1))], "origin": origin}
        return case()

    def sample(self, case):
        return {"src": case["src"][:300], "flags": case["flags"], "origin": case.get("origin")}

    def evaluate(self, case, rt):
        src, flags = case["src"], case["flags"]
        key = run.sha(src, " ".join(flags))
        mode = " ".join(re.sub(r"=.*", "=", f) for f in flags) or "plain"
        labels = ["mode:" + mode, case.get("origin", "generated").split(":")[0]]
        sb = rt.sandbox()
        fn = sb.write(src)
        outs = {}
        try:
            for i in range(case.get("k") or self.k):
                env = {"GOMAXPROCS": GOMAXPROCS[i % len(GOMAXPROCS)], "GOGC": GOGC[i % len(GOGC)]}
                o = rt.runner.bb(sb.dir, fn, flags, env_extra=env)
                if o.kind in ("timeout", "hard"):
                    o = rt.runner.bb(sb.dir, fn, flags, env_extra=env)
                if o.kind != "ok":
                    return Verdict(None, labels + ["discard-" + o.kind], False, key, discard="crash" if o.kind == "crash" else "hang")
                text = o.out
                if "--define" in flags:
                    text = "\n".join(sorted(text.split("\n")))
                outs.setdefault(text, (i, env))
        finally:
            sb.remove(fn)
        first = next(iter(outs))
        nontrivial = first.count("\n") >= 2
        if len(outs) == 1:
            return Verdict(None, labels, nontrivial, key)
        a, b = list(outs)[:2]
        la, lb = a.split("\n"), b.split("\n")
        idx = next((i for i in range(min(len(la), len(lb))) if la[i] != lb[i]), min(len(la), len(lb)))
        return Verdict({"what": "%d distinct outputs in %d runs with %s; first difference at line %d: %r vs %r" % (
            len(outs), case.get("k") or self.k, mode, idx + 1, la[idx:idx + 1], lb[idx:idx + 1]), "flags": flags, "inproc_is_truth": True,
            "same_multiset": sorted(la) == sorted(lb), "mode": mode}, labels + ["diverge"], nontrivial, key)

    def matchers(self):
        def m_mode(case, v, params):
            return v.get("mode") == params.get("mode")
        return {"c05_mode": m_mode}
