"""C02 — analysis terminates on every finite input without the watchdog."""
import re

from hypothesis import strategies as st

from .. import corpus, mutate, run, regress_inputs
from ..engine import Prop, Verdict

_OPENERS = ("class", "module", "def", "if", "unless", "case", "while", "until", "for", "begin", "do")

TRUNC_TAILS = ["", " ", "#", "# c", "\"", "\"abc", "'", "'a", "%", "%w(", "<", " <", "<<~EOS", "<<~EOS\nabc", "=begin\nx", "def", "def ",
               "def a(", "def a(b,", "def a(b = ", "def self.", "class", "class A <", "class A < ", "case x\nin ", "case x\nin {", "case x\nin [a,",
               " do |", " do |a,", " { |", "[", "[1,", "{", "{a:", "{a: 1,", "(", "(1,", ".", "&.", "::", ":\"a", "?", " ? 1 :", "..", "\\", "if", "if x &&",
               "while ", "for a in", "attr_reader :a,", "include ", "x = ", "x +=", "->(", "|", "&", "*", "**", "!", "@", "$", "x.y = ", "[1].each", "return "]


@st.composite
def cyclic(draw):
    """Cyclic class / module graphs followed by calls that walk the ancestors."""
    n = draw(st.integers(1, 4))
    names = ["Ca", "Cb", "Cc", "Cd"][:n]
    kind = draw(st.sampled_from(["super", "include", "extend", "mixed"]))
    lines = []
    for i, c in enumerate(names):
        nxt = names[(i + 1) % n]
        k = kind if kind != "mixed" else draw(st.sampled_from(["super", "include", "extend"]))
        if k == "super":
            lines += ["class %s < %s" % (c, nxt)]
            if draw(st.booleans()):
                lines += ["  def m%d" % i, "    %d" % i, "  end"]
            lines += ["end"]
        else:
            lines += ["module %s" % c, "  %s %s" % (k, nxt)]
            if draw(st.booleans()):
                lines += ["  def m%d" % i, "    %d" % i, "  end"]
            lines += ["end"]
    if kind != "super":
        lines += ["class Host", "  include %s" % names[0], "  extend %s" % names[-1], "end"]
        recv = "Host"
    else:
        recv = names[0]
    probes = draw(st.lists(st.sampled_from([
        "%s.new.undefined_one" % recv, "%s.undefined_two" % recv, "x = %s.new\nx.m0\nx.zz = 1\nx.zz" % recv,
        "%s.new.m1(1)" % recv, "y = %s.new\ny.is_a?(%s)" % (recv, names[-1]), "%s.new.to_s" % recv, "dbtp %s.new.m0" % recv,
    ]), min_size=1, max_size=4))
    src = "\n".join(lines + probes) + draw(st.sampled_from(["\n", ""]))
    return src


@st.composite
def value_cycles(draw):
    """Well-formed programs whose *values* are cyclic: locals/ivars assigned in a ring, mutually recursive methods, self-containing literals."""
    n = draw(st.integers(1, 4))
    kind = draw(st.sampled_from(["locals", "ivars", "methods", "mixed", "literal"]))
    lines = []
    if kind in ("locals", "ivars"):
        pre = "" if kind == "locals" else "@"
        names = [pre + x for x in ["va", "vb", "vc", "vd"][:n]]
        lines.append("def cyc(q)")
        for i, v in enumerate(names):
            lines.append("  %s = %s" % (v, names[(i + 1) % n]))
        if draw(st.booleans()):
            lines.append("  %s = %s + 1" % (names[0], names[-1]))
        lines.append("  " + names[draw(st.integers(0, n - 1))])
        lines += ["end", "dbtp cyc(1)"]
    elif kind == "methods":
        names = ["ma", "mb", "mc", "md"][:n]
        for i, m in enumerate(names):
            lines += ["def %s(x)" % m, "  %s(x)" % names[(i + 1) % n], "end"]
        lines.append("dbtp %s(1)" % names[0])
    elif kind == "mixed":
        lines += ["def ma(x)", "  y = mb(x)", "  y", "end", "def mb(x)", "  z = ma(x)", "  z = z", "  z", "end", "r = ma(1)", "r = r", "dbtp r"]
    else:
        lines += ["a = [1]", "a = [a]", "a.push(a)", "h = {k: 1}", "h[:k] = h", "dbtp a", "dbtp h", "b = a", "a = b", "dbtp b"]
    return "\n".join(lines) + draw(st.sampled_from(["\n", ""]))


def open_at_eof(src):
    """Does the input end inside an open construct (approximate, for classification only)?"""
    toks = mutate.tokens(src)
    depth = 0
    br = 0
    for i, t in enumerate(toks):
        if t in _OPENERS:
            depth += 1
        elif t == "end":
            depth -= 1
        elif t in "([{" and len(t) == 1:
            br += 1
        elif t in ")]}" and len(t) == 1:
            br -= 1
    last = src.rsplit("\n", 1)[-1]
    unterminated = (last.count('"') % 2 == 1) or (last.count("'") % 2 == 1) or ("#" in last and not src.endswith("\n"))
    tail_op = bool(re.search(r"(<|%|\.|,|\||&|=|\(|\[|\{|::|\\)\s*$", src))
    return depth > 0 or br > 0 or unterminated or tail_op or not src.endswith("\n")


class Check(Prop):
    ID = "C02"
    RULE = ("cases = (source bytes, flags in {none,-i}); enumerated: regression inputs that hung the pinned tree and every token "
            "prefix cut of a fixed corpus subset crossed with truncation tails (unterminated comment/string/%-literal/heredoc, open "
            "def/class/case-in/block/bracket); generated: truncated and mutated corpus programs, hostile fragments, cyclic "
            "inheritance/include/extend graphs of length 1-4 followed by ancestor-walking calls, value cycles (locals/ivars assigned in a ring, mutually recursive methods, self-containing literals) whole grammar-generated programs and calls of shipped configured methods (complete and cut off). Oracle: the analysis finishes; an "
            "in-process deadline expiry is only a trigger - a hang is believed when the guard-off binary prints `timeout` (or is "
            "killed) 3 out of 3 times while holding the machine-wide exclusive lock. Stack overflow / out-of-memory fatal errors "
            "count as non-termination. Non-trivial = ends inside an open construct or declares a cycle; distinct by SHA-1.")
    ASSUMPTIONS = (
        "ti's 500 ms watchdog is wall-clock; a `timeout` seen under load is re-checked exclusively and otherwise counted as inconclusive_load",
        "panics are C01's concern and only counted here",
    )
    BUDGET = {"quick": 3000, "thorough": 40000}
    WALL = {"quick": 150, "thorough": 1500}
    SERVER_TIMEOUT = 1.5

    def __init__(self, *a):
        Prop.__init__(self, *a)
        self.progs = corpus.plain(self.repo)
        self.texts = mutate.Texts(p.l1 for p in self.progs if len(p.l1) < 6000)

    def explicit(self):
        for s in regress_inputs.HANGERS + regress_inputs.CRASHERS:
            yield {"src": s, "flags": [], "origin": "regress"}
            yield {"src": s, "flags": ["-i"], "origin": "regress"}
        small = [p for p in self.progs if p.l1.count("\n") <= 40]
        nfiles = 25 if self.tier == "quick" else 200
        step = max(1, len(small) // nfiles)
        k = 0
        for p in small[::step][:nfiles]:
            toks = mutate.tokens(p.l1)
            # cut after every 7th token and attach a rotating truncation tail
            for cut in range(3, len(toks), 7):
                tail = TRUNC_TAILS[k % len(TRUNC_TAILS)]
                k += 1
                yield {"src": "".join(toks[:cut]) + tail, "flags": ["-i"] if k % 3 == 0 else [], "origin": "enum-trunc:" + p.name}

    def strategy(self):
        texts = self.texts
        trunc = st.builds(lambda pre, tail: pre + tail, mutate.prefix_of(texts), st.sampled_from(TRUNC_TAILS))
        frag_trunc = st.builds(lambda a, tail: a + tail, mutate.fragments(6), st.sampled_from(TRUNC_TAILS))
        from .. import rb
        whole = rb.program(max_stmts=8, case_in=True, errors=0.15).map(lambda p: rb.render(p["tree"]))
        from .. import shipped
        calls = shipped.strategy(self.repo)
        # calls of shipped configured methods with arbitrary argument lists, complete and cut off inside the argument list or block
        calls_trunc = st.builds(lambda t, k, tail: t[:max(1, len(t) - k)] + tail, calls, st.integers(0, 12), st.sampled_from(TRUNC_TAILS))
        src = st.one_of(trunc, trunc, mutate.mutated(texts), frag_trunc, cyclic(), cyclic(), value_cycles(), whole, mutate.raw_latin1(128),
                        calls, calls_trunc)
        return st.fixed_dictionaries({"src": src, "flags": st.sampled_from([[], ["-i"]])})

    def sample(self, case):
        return {"src": case["src"][-300:], "flags": case["flags"], "origin": case.get("origin", "generated")}

    def evaluate(self, case, rt):
        src = case["src"]
        flags = case["flags"]
        o, fn = rt.run_src(src, flags, latin1=True, keep=True)
        sb = rt.sandbox()
        try:
            labels = []
            is_cycle = bool(re.search(r"class (\w+) < \1\b", src)) or "Ca" in src and ("< C" in src or "include C" in src or "extend C" in src) \
                or "def cyc(" in src or "def ma(" in src or "a = [a]" in src
            if is_cycle:
                labels.append("cycle")
            opened = open_at_eof(src)
            if opened:
                labels.append("open-at-eof")
            nontrivial = opened or is_cycle
            key = run.sha(src, " ".join(flags))
            if o.kind == "dead":
                o = rt.runner.run(sb, fn, flags, force_blackbox=True)
            if o.kind == "crash":
                kind = run.panic_kind(o.detail)
                if kind in ("stack-overflow", "oom"):
                    site = run.panic_site(o.detail)
                    frames = [site]
                    return Verdict({"what": "non-termination (%s) at %s" % (kind, site), "site": site, "frames": frames, "kind": kind,
                                    "detail": o.detail[:1200]}, labels + ["fatal-" + kind], nontrivial, key)
                return Verdict(None, labels + ["crash"], nontrivial, key, discard="crash")
            if o.kind in ("timeout", "hard"):
                believed, last = rt.runner.believed_hang(sb, fn, flags)
                if not believed:
                    return Verdict(None, labels + ["inconclusive-load"], nontrivial, key, discard="load")
                frames, dump = rt.runner.hang_site(sb, fn, flags)
                site = next((f for f in frames if f.startswith("ti/eval")), frames[0] if frames else "unknown")
                return Verdict({"what": "hang: watchdog `timeout` 3/3 on an idle machine, spinning in %s" % site, "site": site,
                                "frames": frames[:25], "kind": "hang", "stdout": last.out[-200:]}, labels + ["hang"], nontrivial, key)
            return Verdict(None, labels, nontrivial, key)
        finally:
            sb.remove(fn)

    def matchers(self):
        def site(case, v, params):
            return params.get("site") in (v.get("frames") or [v.get("site")])
        return {"c02_site": site}
