"""C12 — analyzing a program never alters configured builtin signatures."""
import re

from hypothesis import strategies as st

from .. import corpus, meta, rb, run
from ..engine import Prop, Verdict
from .c11 import FIXED_FRAGMENTS

# statements rich in the shapes that mutate shared method types: calls on union receivers (operators and named methods),
# OptionalUnify methods, push/concat/<<, rest-parameter calls, keyword calls, blocks, destructive methods
MUTATORS = [
    ["mu1 = true ? 1 : \"s\"", "mu2 = mu1 * 2"], ["mu3 = true ? \"a\" : 2", "mu4 = mu3 + mu3"], ["mu5 = true ? 1 : 2.5", "mu6 = mu5 - 1", "mu7 = mu5.to_s"],
    ["mu8 = [1, \"a\"]", "mu9 = mu8.first", "mu10 = mu8.last"], ["mu11 = [1]", "mu11.push(\"s\")", "mu11 << :a", "mu11.concat([1.5])"],
    ["mu12 = true ? [1] : \"s\"", "mu12.length"], ["mu13 = true ? nil : \"s\"", "mu13.to_s", "mu13.nil?"],
    ["mu14 = {a: 1}", "mu14.merge({b: \"s\"})", "mu14[:c] = 1.5", "mu14.keys"], ["mu15 = \"s\"", "mu15.upcase!", "mu15 << \"t\""],
    ["mu16 = Proc.new { |mq| mq }", "mu16.call(1, \"s\", :a)"], ["puts(1, \"s\")", "p(1)", "print(\"a\", 2)"],
    ["mu17 = true ? 1 : nil", "mu18 = mu17 & 1", "mu19 = mu17.to_i"], ["mu20 = (1..3)", "mu20.each do |mr|", "  mr.to_s", "end"],
    ["mu21 = [[1], [\"s\"]]", "mu21.flatten", "mu21.each do |ms|", "  ms.first", "end"], ["mu22 = true ? :a : \"s\"", "mu22 == 1", "mu22.inspect"],
    ["mu23 = GPIO.new(1, 2)", "mu23.write(1)", "mu24 = true ? 1 : \"s\"", "GPIO.new(mu24, 1)"],
    ["mu25 = Test.asterisk(1, 2, 3)", "mu26 = Test.union(1)", "mu27 = Test.keyword_json_test(name: 1)"],
]


class Check(Prop):
    ID = "C12"
    RULE = ("cases = programs that do not reopen configured classes: golden corpus programs, grammar-generated programs, and "
            "concatenations of hand-written statement groups rich in the shapes that touch shared method types (operators and named "
            "methods on union receivers, OptionalUnify returns, push/<</concat growth, rest-parameter and keyword calls, destructive "
            "methods, blocks), and calls of every method of the shipped configuration with 15 fixed (enumerated) and generated argument lists, accepted and rejected, and programs that define classes with the short name of a configured class inside a namespace of their own. Oracle (state probe through the verif hook): the in-process server renders every table entry that exists "
            "before the analysis (all frames; arguments, return type incl. variants, flags, block parameters, overloads), runs the four "
            "rounds, renders the same keys again; any REMOVED or CHANGED pre-existing entry is a violation (entries added by inference and "
            "the display cache beforeEvaluateCode are ignored). Confirmation on the real binary: when the program followed by a probe "
            "suite changes the probe lines relative to the probe suite alone, that is reported in the evidence. Non-trivial = the program "
            "contains a call on a union receiver, a growth/strategy method or a rest-parameter call; distinct by SHA-1(program).")
    ASSUMPTIONS = (
        "the observable is the in-memory table of the guard-on build (add-only hook base.VerifDumpTable); it is not re-evaluated on the guard-off binary",
        "programs that reopen a configured class (class Integer ... end) are excluded by a token filter",
        "crashing/hanging runs are discarded here and counted",
    )
    WANT = ("ti", "server")
    BUDGET = {"quick": 2000, "thorough": 40000}
    WALL = {"quick": 150, "thorough": 1500}

    def __init__(self, *a):
        Prop.__init__(self, *a)
        from .c13 import config_names
        self.cfg = config_names(self.repo)
        self.progs = [p for p in corpus.plain(self.repo) if len(p.text) < 6000 and not self.reopens(p.text)]

    def reopens(self, src):
        return any(c in self.cfg for c in re.findall(r"(?m)^\s*(?:class|module)\s+([A-Z]\w*)", src))

    def explicit(self):
        n = 120 if self.tier == "quick" else len(self.progs)
        step = max(1, len(self.progs) // n)
        for p in self.progs[::step][:n]:
            yield {"src": p.text, "origin": "corpus:" + p.name}
        for g in MUTATORS:
            yield {"src": "\n".join(g) + "\n", "origin": "mutator"}
        # every method of the shipped configuration with 15 right and wrong argument lists: accepted and rejected calls both run
        # the code that reads (and must not write) the configured entry
        from .. import shipped
        for src in shipped.enumerated_programs(self.repo, per_program=12 if self.tier == "quick" else 6):
            yield {"src": src, "origin": "shipped-calls"}

    def strategy(self):
        groups = MUTATORS + [f for f in FIXED_FRAGMENTS]

        @st.composite
        def case(draw):
            k = draw(st.integers(0, 13))
            if k >= 12:
                # user classes that share the short name of a configured class but live in a namespace of their own: not a reopening
                names = sorted(n for n in self.cfg if n and n[0].isupper() and n.isidentifier())
                ns = draw(st.sampled_from(["Drivers", "Mine", "Outer::Deep"]))
                lines = []
                ind = ""
                for part in ns.split("::"):
                    lines.append(ind + "module " + part)
                    ind += "  "
                picked = draw(st.lists(st.sampled_from(names), min_size=1, max_size=3, unique=True))
                for n in picked:
                    lines.append(ind + "class " + n)
                    if draw(st.integers(0, 2)) == 0:
                        lines += [ind + "  def initialize(a)", ind + "    @a = a", ind + "  end"]
                    lines += [ind + "  def nsm_%s" % n.lower(), ind + "    1", ind + "  end"]
                    if draw(st.integers(0, 3)) == 0:
                        lines += [ind + "  def self.nsc_%s" % n.lower(), ind + "    \"s\"", ind + "  end"]
                    lines.append(ind + "end")
                for kk in range(len(ns.split("::")) - 1, -1, -1):
                    lines.append("  " * kk + "end")
                for n in picked:
                    lines.append("nso_%s = %s::%s.new%s" % (n.lower(), ns, n, draw(st.sampled_from(["", "(1)", "(1, 2)"]))))
                    lines.append("nsq_%s = %s.new%s" % (n.lower(), n, draw(st.sampled_from(["", "(1)", "(1, 2)"]))))
                return {"src": "\n".join(lines) + "\n", "origin": "namespaced-shadow"}
            if k >= 10:
                from .. import shipped
                return {"src": draw(shipped.strategy(self.repo)), "origin": "shipped-calls-generated"}
            if k < 5:
                idx = draw(st.lists(st.integers(0, len(groups) - 1), min_size=1, max_size=5))
                lines = []
                for n, i in enumerate(idx):
                    lines += [re.sub(r"\b(mu|zq)(\d+)", lambda m: "%s%s_%d" % (m.group(1), m.group(2), n), l) for l in groups[i]]
                if draw(st.booleans()):
                    lines = ["def mwrap(mwa)"] + ["  " + l for l in lines] + ["  mwa", "end", "mwrap(1)", "mwrap(\"s\")"]
                return {"src": "\n".join(lines) + "\n", "origin": "mutator-mix"}
            if k < 8:
                p = draw(rb.program(max_stmts=10, case_in=True))
                return {"src": rb.render(p["tree"]), "origin": "generated"}
            p = self.progs[draw(st.integers(0, len(self.progs) - 1))]
            frag = groups[draw(st.integers(0, len(groups) - 1))]
            return {"src": p.text.rstrip("\n") + "\n" + "\n".join(frag) + "\n", "origin": "corpus+mutator:" + p.name}
        return case()

    def sample(self, case):
        return {"src": case["src"][:500], "origin": case.get("origin")}

    def evaluate(self, case, rt):
        src = case["src"]
        key = run.sha(src)
        labels = [case.get("origin", "generated").split(":")[0]]
        if labels[0] != "namespaced-shadow" and self.reopens(src):
            return Verdict(None, labels + ["precondition"], False, key, discard="precondition")
        if rt.backend != "inproc":
            return Verdict(None, labels + ["no-hook"], False, key, discard="precondition")
        o, fn = rt.run_src(src, [], snap=True)
        if o.kind == "crash":
            return Verdict(None, labels, False, key, discard="crash")
        if o.kind != "ok":
            return Verdict(None, labels, False, key, discard="hang")
        nontrivial = bool(re.search(r"\? .* : |\.push\(|<<|\.concat\(|\.first|\.last|\.merge|asterisk|!\s*$|!\n", src)) or labels[0].startswith("shipped-calls") or labels[0] == "namespaced-shadow"
        if re.search(r" \? ", src):
            labels.append("union-values")
        if not o.snap:
            return Verdict(None, labels, nontrivial, key)
        changes = []
        for l in o.snap.split("\n"):
            if not l:
                continue
            parts = l.split("\t")
            changes.append({"kind": parts[0], "key": parts[1], "before": parts[2][:600] if len(parts) > 2 else "", "after": parts[3][:600] if len(parts) > 3 else ""})
        c0 = changes[0]
        return Verdict({"what": "configured table entry %s %s: %s -> %s" % (c0["kind"], c0["key"], c0["before"][:200], c0["after"][:200]),
                        "changes": changes[:6], "inproc_is_truth": True, "program": src[:3000]}, labels + ["table-changed"], nontrivial, key)

    def matchers(self):
        def m_rest(case, v, params):
            """Every changed entry is a rest (`is_asterisk`) parameter slot whose configured type was replaced by the array of actual arguments."""
            ch = v.get("changes") or []
            return bool(ch) and all(c["kind"] == "CHANGED" and "ast=true" in c["before"] and 'oc="Array"' in c["after"] for c in ch)
        return {"c12_rest_parameter_overwritten": m_rest}
