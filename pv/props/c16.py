"""C16 — user classes: resolution, inheritance and visibility follow Ruby."""
from hypothesis import strategies as st

from .. import meta, run
from ..engine import Prop, Verdict

LIT = [("1", "Integer"), ('"s"', "String"), ("1.5", "Float"), (":a", "Symbol"), ("nil", "NilClass"), ("true", "Bool"), ("[1]", "Array<Integer>")]
NAMES_OK = ["Alfa", "Bravo", "Carlo", "Deltax", "Echoo", "Foxy"]
# short names of classes the shipped configuration declares in *foreign* frames (the property's own example); names of classes
# configured in frame Builtin itself would reopen a builtin class, which the property does not cover
NAMES_COLL = ["Base", "Table", "Relation", "Error", "Object"]


@st.composite
def hierarchy(draw):
    ncls = draw(st.integers(1, 4))
    nmod = draw(st.integers(0, 2))
    pool = list(draw(st.permutations(NAMES_OK)))
    cls = [pool.pop() for _ in range(ncls)]
    coll = draw(st.integers(0, 3)) == 0
    if coll:
        cls[0] = draw(st.sampled_from(NAMES_COLL[:4]))
    mods = ["Mod" + pool.pop() for _ in range(nmod)]
    li = [0]

    def lit():
        li[0] += 1
        return (li[0] + draw(st.integers(0, 1))) % len(LIT)
    out_mods = []
    for m in mods:
        md = {"name": m, "meths": [["%s_m%d" % (m.lower(), k), lit()] for k in range(draw(st.integers(1, 2)))]}
        if draw(st.integers(0, 2)) == 0:
            md["sect"] = {"vis": draw(st.sampled_from(["private", "protected"])), "name": "%s_sec" % m.lower(), "lit": lit(),
                          "after": "%s_aft" % m.lower(), "lit2": lit()}
        out_mods.append(md)
    out_cls = []
    for i, c in enumerate(cls):
        d = {"name": c, "parent": None, "inc": [], "ext": [], "init": None, "imeths": [], "cmeths": [], "sclass": False, "reopen": False}
        if i > 0 and draw(st.integers(0, 9)) < 7:
            d["parent"] = cls[draw(st.integers(0, i - 1))]
        d["inc"] = [m for m in mods if draw(st.integers(0, 9)) < 4]
        d["ext"] = [m for m in mods if draw(st.integers(0, 9)) < 3]
        if draw(st.integers(0, 9)) < 4:
            d["init"] = draw(st.integers(0, 2))
        for k in range(draw(st.integers(1, 2))):
            d["imeths"].append(["%s_i%d" % (c.lower(), k), lit(), "public"])
        for k in range(draw(st.integers(0, 1))):
            d["cmeths"].append(["%s_c%d" % (c.lower(), k), lit()])
        if d["cmeths"] and draw(st.integers(0, 3)) == 0:
            # a class method and an instance method of one name (different literal types): both sides stay apart
            d["cmeths"][0][0] = d["imeths"][0][0]
        d["sclass"] = draw(st.integers(0, 3)) == 0
        d["sclass_mid"] = draw(st.booleans())
        if draw(st.integers(0, 9)) < 4:
            v = draw(st.sampled_from(["private", "protected"]))
            d["imeths"].append(["%s_%s" % (c.lower(), v[:4]), lit(), v])
        d["reopen"] = draw(st.integers(0, 4)) == 0
        out_cls.append(d)
    allm = sorted({m[0] for d in out_cls for m in d["imeths"]} | {m[0] for d in out_cls for m in d["cmeths"]} | {m[0] for d in out_mods for m in d["meths"]}
                  | {d["sect"][k] for d in out_mods if d.get("sect") for k in ("name", "after")})
    probes = []
    for _ in range(draw(st.integers(4, 8))):
        c = cls[draw(st.integers(0, len(cls) - 1))]
        m = allm[draw(st.integers(0, len(allm) - 1))] if draw(st.integers(0, 9)) else "zz_nope"
        probes.append({"kind": "inst" if draw(st.integers(0, 9)) < 6 else "class", "cls": c, "m": m})
    c = cls[draw(st.integers(0, len(cls) - 1))]
    probes.append({"kind": "new", "cls": c, "k": draw(st.integers(0, 3))})
    inner = draw(st.integers(1, ncls)) if draw(st.integers(0, 3)) == 0 else 0
    if coll and inner >= ncls:
        # the colliding class stays at group level: `class Base` inside Inn next to a configured X::Base is C20/C27 ground
        inner = ncls - 1
    return {"mods": out_mods, "classes": out_cls, "probes": probes, "coll": coll, "wrap": draw(st.sampled_from([None, None, None, "Outer", "Outer::Deep"])),
            "inner": inner, "inside": draw(st.integers(0, 2)) == 0}


def render_and_model(case):
    lines = []
    imeth, cmeth, vis, parent, inc, ext, init = {}, {}, {}, {}, {}, {}, {}
    ind = ""
    q = ""
    for dline in case.get("decoy_before", []):
        lines.append(dline)
    if case.get("wrap"):
        for part in case["wrap"].split("::"):
            lines.append(ind + "module %s" % part)
            ind += "  "
        q = case["wrap"] + "::"
    for m in case["mods"]:
        lines.append(ind + "module %s" % m["name"])
        imeth[m["name"]] = {}
        vis[m["name"]] = {}
        for name, l in m["meths"]:
            imeth[m["name"]][name] = LIT[l][1]
            lines += [ind + "  def %s" % name, ind + "    %s" % LIT[l][0], ind + "  end"]
        sect = m.get("sect")
        if sect:
            # a visibility section inside the module, closed again by a bare `public`
            lines.append(ind + "  " + sect["vis"])
            imeth[m["name"]][sect["name"]] = LIT[sect["lit"]][1]
            vis[m["name"]][sect["name"]] = sect["vis"]
            lines += [ind + "  def %s" % sect["name"], ind + "    %s" % LIT[sect["lit"]][0], ind + "  end"]
            lines.append(ind + "  public")
            imeth[m["name"]][sect["after"]] = LIT[sect["lit2"]][1]
            lines += [ind + "  def %s" % sect["after"], ind + "    %s" % LIT[sect["lit2"]][0], ind + "  end"]
        lines.append(ind + "end")
    # the last `inner` classes live in a namespace of their own inside the group (module Inn) and name the classes and
    # modules one level up without qualification
    n_inner = min(case.get("inner") or 0, len(case["classes"]))
    inner_names = {d["name"] for d in case["classes"][len(case["classes"]) - n_inner:]} if n_inner else set()
    outer_ind = ind
    for di, d in enumerate(case["classes"]):
        c = d["name"]
        if n_inner and di == len(case["classes"]) - n_inner:
            lines.append(ind + "module Inn")
            ind += "  "
        parent[c], inc[c], ext[c] = d["parent"], d["inc"], d["ext"]
        imeth[c], cmeth[c], vis[c] = {}, {}, {}
        lines.append(ind + "class %s%s" % (c, (" < " + d["parent"]) if d["parent"] else ""))
        for m in d["inc"]:
            lines.append(ind + "  include %s" % m)
        for m in d["ext"]:
            lines.append(ind + "  extend %s" % m)
        if d["init"] is not None:
            init[c] = d["init"]
            lines += [ind + "  def initialize(%s)" % ", ".join("a%d" % i for i in range(d["init"])), ind + "  end"]
        pub = [m for m in d["imeths"] if m[2] == "public"]
        late = pub[1:] if d["reopen"] else []
        for name, l, v in (pub[:1] if d["reopen"] else pub):
            imeth[c][name] = LIT[l][1]
            vis[c][name] = "public"
            lines += [ind + "  def %s" % name, ind + "    %s" % LIT[l][0], ind + "  end"]
        nonpub = [m for m in d["imeths"] if m[2] != "public"]
        sclass_mid = bool(d.get("sclass_mid") and d["sclass"] and d["cmeths"] and nonpub)
        if sclass_mid:
            # the singleton block sits inside the visibility section further down and ends on a bare keyword of the same kind
            for name, l in d["cmeths"]:
                cmeth[c][name] = LIT[l][1]
        elif d["sclass"] and d["cmeths"]:
            lines.append(ind + "  class << self")
            for name, l in d["cmeths"]:
                cmeth[c][name] = LIT[l][1]
                lines += [ind + "    def %s" % name, ind + "      %s" % LIT[l][0], ind + "    end"]
            lines.append(ind + "  end")
        else:
            for name, l in d["cmeths"]:
                cmeth[c][name] = LIT[l][1]
                lines += [ind + "  def self.%s" % name, ind + "    %s" % LIT[l][0], ind + "  end"]
        for name, l, v in d["imeths"]:
            if v != "public":
                lines.append(ind + "  " + v)
                if sclass_mid:
                    sclass_mid = False
                    lines.append(ind + "  class << self")
                    for cname, cl in d["cmeths"]:
                        lines += [ind + "    def %s" % cname, ind + "      %s" % LIT[cl][0], ind + "    end"]
                    lines += [ind + "    " + v, ind + "  end"]
                imeth[c][name] = LIT[l][1]
                vis[c][name] = v
                lines += [ind + "  def %s" % name, ind + "    %s" % LIT[l][0], ind + "  end"]
        lines.append(ind + "end")
        if late:
            # reopening: later public methods (the visibility section of the first body must not leak into this one)
            lines.append(ind + "class %s" % c)
            for name, l, v in late:
                imeth[c][name] = LIT[l][1]
                vis[c][name] = "public"
                lines += [ind + "  def %s" % name, ind + "    %s" % LIT[l][0], ind + "  end"]
            lines.append(ind + "end")
    if n_inner:
        ind = outer_ind
        lines.append(ind + "end")
    # call sites inside the namespace: a class of the group calls class methods of the others by their unqualified names
    inside = []
    if case.get("inside"):
        # (a non-public method of an extended module on the class side is not modelled: no call site for it)
        hidden = {x["sect"]["name"] for x in case["mods"] if x.get("sect")}
        cps = [p for p in case["probes"] if p["kind"] == "class" and p["m"] not in hidden]
        if cps:
            lines.append(ind + "class Zcaller")
            for k, p in enumerate(cps):
                tgt = ("Inn::" if p["cls"] in inner_names else "") + p["cls"]
                lines += [ind + "  def zc_%d" % k, ind + "    %s.%s" % (tgt, p["m"]), ind + "  end"]
                inside.append((k, p))
            lines.append(ind + "end")
    if case.get("wrap"):
        for k in range(len(case["wrap"].split("::")) - 1, -1, -1):
            lines.append("  " * k + "end")
    for dline in case.get("decoy_after", []):
        lines.append(dline)

    def anc(c):
        out = []
        seen = set()
        while c and c not in seen:
            seen.add(c)
            out.append(c)
            out += list(reversed(inc.get(c, [])))
            c = parent.get(c)
        return out

    def find_i(c, m):
        for a in anc(c):
            if m in imeth.get(a, {}):
                return a, imeth[a][m]
        return None

    def find_c(c, m):
        k = c
        seen = set()
        while k and k not in seen:
            seen.add(k)
            if m in cmeth.get(k, {}):
                return k, cmeth[k][m]
            for mod in reversed(ext.get(k, [])):
                if m in imeth[mod]:
                    return mod, imeth[mod][m]
            k = parent.get(k)
        return None

    def init_arity(c):
        k = c
        seen = set()
        while k and k not in seen:
            seen.add(k)
            if k in init:
                return init[k]
            k = parent.get(k)
        return None
    exp = []

    def qual(c):
        return q + ("Inn::" if c in inner_names else "") + c
    for d in case["classes"]:
        c = d["name"]
        n = init_arity(c)
        lines.append("o_%s = %s.new(%s)" % (c.lower(), qual(c), ", ".join(["1"] * (n or 0))))
    for p in case["probes"]:
        c = p["cls"]
        row = len(lines) + 1
        if p["kind"] == "inst":
            r = find_i(c, p["m"])
            lines.append("dbtp o_%s.%s" % (c.lower(), p["m"]))
            if r is None:
                exp.append([row, "ERR", None, "inst-undefined"])
            else:
                owner, t = r
                v = vis.get(owner, {}).get(p["m"], "public")
                exp.append([row, "OK" if v == "public" else "ERR", t, "inst-" + v + ("-inherited" if owner != c else "")])
        elif p["kind"] == "class":
            r = find_c(c, p["m"])
            if r is not None and vis.get(r[0], {}).get(p["m"], "public") != "public":
                continue      # a non-public method of an extended module on the class side: not modelled
            if r is None and any(p["m"] in (x.get("sect") or {}).values() for x in case["mods"]):
                continue
            lines.append("dbtp %s.%s" % (qual(c), p["m"]))
            exp.append([row, "ERR" if r is None else "OK", None if r is None else r[1], "class-undefined" if r is None else ("class-" + ("own" if r[0] == c else "inherited"))])
        else:
            n = init_arity(c)
            if n is None:
                continue
            lines.append("%s.new(%s)" % (qual(c), ", ".join(["1"] * p["k"])))
            exp.append([row, "OK" if p["k"] == n else "ERR", "-", "new-arity"])
    if inside:
        lines.append("o_zcaller = %sZcaller.new" % q)
        for k, p in inside:
            r = find_c(p["cls"], p["m"])
            if r is None:
                continue      # the diagnostic sits inside Zcaller's body, not on a probe row
            row = len(lines) + 1
            lines.append("dbtp o_zcaller.zc_%d" % k)
            exp.append([row, "OK", r[1], "class-" + ("own" if r[0] == p["cls"] else "inherited") + "-from-inside"])
    return "\n".join(lines) + "\n", exp


class Check(Prop):
    ID = "C16"
    RULE = ("cases = generated hierarchies: 1-4 classes (superclass chains up to depth 4), 0-2 modules included/extended, optional "
            "initialize (0-2 parameters), `def self.` or `class << self` class methods, private/protected sections, reopened classes, "
            "optionally nested in one or two namespace modules, optionally with the last classes in an inner namespace of the group (module Inn) naming the rest without qualification; one class name in 4 collides with the short name of a class configured in a foreign "
            "frame (Base, Table, Relation, Error). Every generated method returns a literal of a distinct type, so the resolved method is "
            "observable through dbtp. Probes: instance calls, class calls, K.new arity. Oracle = Ruby method resolution model (class, "
            "included modules last first, superclass ...; singleton side: class methods, extended modules, superclass singleton; "
            "new <-> initialize; private/protected with explicit receiver from outside): resolvable -> dbtp shows the resolved method's "
            "literal type and no diagnostic on the row; unresolvable or not callable -> a diagnostic on the row. Non-trivial = probe "
            "resolved through an ancestor/module, or a visibility or arity probe; distinct by SHA-1(program).")
    ASSUMPTIONS = (
        "names of classes configured in frame Builtin itself are not generated (that would reopen a builtin class)",
        "one-letter / all-caps class names belong to C13",
        "crashing/hanging runs are discarded here and counted",
    )
    BUDGET = {"quick": 2000, "thorough": 30000}
    WALL = {"quick": 150, "thorough": 1500}

    def strategy(self):
        return hierarchy()

    def sample(self, case):
        return {"program": render_and_model(case)[0]}

    def evaluate(self, case, rt):
        src, exp = render_and_model(case)
        key = run.sha(src)
        labels = ["collide" if case.get("coll") else "no-collision"] + (["namespaced"] if case.get("wrap") else []) + (["inner-namespace"] if case.get("inner") else [])
        try:
            recs = meta.analyse(rt, src, [])
        except meta.Discard as d:
            return meta.discard_verdict(d, labels, key)
        by_row = {}
        for k, r, t in recs:
            by_row.setdefault(r, []).append(t)
        nontrivial = False
        for row, v, t, why in exp:
            labels.append(why)
            if "inherited" in why or "private" in why or "protected" in why or why == "new-arity":
                nontrivial = True
            dg = by_row.get(row, [])
            msgs = [x for x in dg if " " in x and not x.startswith(("Array<", "Union<"))]
            types = [x for x in dg if x not in msgs]
            if v == "ERR":
                ok = bool(msgs)
            elif t == "-":
                ok = not msgs
            else:
                ok = (not msgs) and bool(types) and types[-1] == t
            if not ok:
                return Verdict({"what": "row %d (%s): model says %s%s, ti prints %s" % (row, why, v, "" if t in (None, "-") else " with type " + t, dg),
                                "why": why, "row": row, "program": meta.with_rows(src), "collide": case.get("coll"), "wrap": case.get("wrap")},
                               labels + ["mismatch"], nontrivial, key)
        return Verdict(None, labels, nontrivial, key)

    def matchers(self):
        def m_why(case, v, params):
            import re
            if params.get("wrap") is not None and bool(case.get("wrap")) != params["wrap"]:
                return False
            return re.fullmatch(params["why_pattern"], v.get("why") or "") is not None
        return {"c16_why": m_why}
