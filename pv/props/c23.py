"""C23 — completion lists exactly the methods the receiver can answer."""
import glob
import json
import os

from hypothesis import strategies as st

from .. import meta, run
from ..engine import Prop, Verdict

RECV = [("1", "Integer"), ('"abc"', "String"), ('"Abc"', "String"), ("1.5", "Float"), ("[1]", "Array"), ("{a: 1}", "Hash"), (":a", "Symbol"),
        ("(1..2)", "Range"), ("nil", "NilClass"), ("true", "Bool"), ("GPIO.new(1, 1)", "GPIO")]
USER = ["class Uone", "  def u1", "    1", "  end", "  def self.c1", "    1", "  end", "  private", "  def upriv", "    2", "  end", "end",
        "class Utwo < Uone", "  def u2", "    1", "  end", "  def self.c2", "    1", "  end", "end",
        "module Umod", "  def um", "    1", "  end", "end",
        "class Uthree", "  include Umod", "  def u3", "    1", "  end", "end",
        "class Other", "  def oth", "    1", "  end", "  def self.cother", "    1", "  end", "  private", "  def opriv", "    1", "  end", "end"]
USER_INST = {"Uone": {"u1"}, "Utwo": {"u1", "u2"}, "Uthree": {"u3", "um"}, "Other": {"oth"}}
USER_CLS = {"Uone": {"c1"}, "Utwo": {"c1", "c2"}, "Uthree": set(), "Other": {"cother"}}
USER_ALL = {"u1", "u2", "u3", "um", "oth", "c1", "c2", "cother", "upriv", "opriv"}


def load_config(repo):
    classes = {}
    for f in sorted(glob.glob(os.path.join(repo, "test", ".ti-config", "*.json"))):
        d = json.load(open(f))
        classes[(d.get("frame"), d.get("class"))] = d
    return classes


class Check(Prop):
    ID = "C23"
    RULE = ("cases = (receiver, cursor form). Receivers: a literal or constructor of 11 configured classes (Integer, String incl. a "
            "capitalised literal, Float, Array, Hash, Symbol, Range, NilClass, Bool, GPIO), instances and classes of a small user "
            "hierarchy (superclass, included module, private methods, class methods, an unrelated class), bound to a variable or used "
            "directly; cursor forms: `recv.` followed by another statement, `recv.` as the last line, preceded by 0-3 unrelated statements; half of the generated cases take an instance or class receiver out of a generated hierarchy (C16's generator: superclass chains, included/extended modules, private/protected sections, class methods). "
            "Oracle for `--suggest --row=<cursor row>`: MUST (instance methods of the receiver's class and of its configured/user "
            "ancestors; class methods for a class receiver) is a subset of the listed names, and no listed name is in MUST_NOT (methods "
            "that only unrelated classes define, private methods of other classes, instance methods for class receivers of user classes "
            "and class methods for instances). Membership of Object/Kernel methods is asserted separately (tag obj-kernel). "
            "Non-trivial = the receiver has >= 1 own method; enumerated: every receiver x form.")
    ASSUMPTIONS = (
        "the configured method sets are read from the shipped JSON files by an independent loader (names and extends only)",
        "crashing/hanging runs are discarded here and counted",
    )
    BUDGET = {"quick": 500, "thorough": 6000}
    WALL = {"quick": 150, "thorough": 1500}

    def __init__(self, *a):
        Prop.__init__(self, *a)
        self.classes = load_config(self.repo)
        self.obj = {m["name"] for m in self.classes[("Builtin", "")].get("instance_methods") or []}
        self.ker = {m["name"] for m in self.classes[("Builtin", "Kernel")].get("instance_methods") or []}
        self.owners = {}
        for (fr, c), d in self.classes.items():
            for m in d.get("instance_methods") or []:
                self.owners.setdefault(m["name"], set()).add(c)

    def inst_methods(self, c, seen=None):
        seen = seen or set()
        d = self.classes.get(("Builtin", c))
        if not d or c in seen:
            return set()
        seen.add(c)
        out = {m["name"] for m in d.get("instance_methods") or []}
        for p in d.get("extends") or []:
            out |= self.inst_methods(p, seen)
        return out

    def all_cases(self):
        for lit, c in RECV:
            for form in ("dot-next", "dot-eof"):
                for bind in (True, False):
                    yield {"recv": lit, "cls": c, "kind": "builtin", "form": form, "bind": bind, "pre": 0}
        for c in USER_INST:
            for form in ("dot-next", "dot-eof"):
                yield {"recv": c + ".new", "cls": c, "kind": "user-inst", "form": form, "bind": True, "pre": 0}
                yield {"recv": c, "cls": c, "kind": "user-class", "form": form, "bind": False, "pre": 0}

    def explicit(self):
        return self.all_cases()

    def hier_strategy(self):
        """Receivers from generated user hierarchies (C16's generator): instance and class receivers of every class."""
        from . import c16

        @st.composite
        def case(draw):
            h = draw(c16.hierarchy())
            h["wrap"] = None
            h["probes"] = []
            k = draw(st.integers(0, len(h["classes"]) - 1))
            return {"kind": "hier", "h": h, "k": k, "side": draw(st.sampled_from(["inst", "inst", "class"])), "form": "dot-next", "bind": True, "pre": 0,
                    "recv": h["classes"][k]["name"], "cls": h["classes"][k]["name"]}
        return case()

    def strategy(self):
        return st.one_of(self.fixed_strategy(), self.hier_strategy())

    def fixed_strategy(self):
        cases = list(self.all_cases())
        return st.tuples(st.sampled_from(cases), st.integers(0, 3), st.booleans()).map(lambda t: dict(t[0], pre=t[1], bind=t[2] if t[0]["kind"] != "user-class" else False))

    def sample(self, case):
        if case.get("kind") == "hier":
            return {"hierarchy_class": case["cls"], "side": case["side"]}
        return {"program": self.render(case)[0], "row": self.render(case)[1]}

    @staticmethod
    def render(case):
        lines = list(USER)
        for k in range(case.get("pre", 0)):
            lines.append(["pz1 = 1", "pz2 = \"s\"", "pz3 = [1, 2]"][k])
        if case["bind"]:
            lines.append("r = %s" % case["recv"])
            lines.append("r.")
        else:
            lines.append("%s." % case["recv"])
        row = len(lines)
        if case["form"] == "dot-next":
            lines.append("zz = 1")
        return "\n".join(lines) + "\n", row

    def evaluate_hier(self, case, rt):
        from . import c16
        h = case["h"]
        src0, _ = c16.render_and_model(dict(h, probes=[]))
        lines = src0.rstrip("\n").split("\n")
        cls = {d["name"]: d for d in h["classes"]}
        mods = {m["name"]: m for m in h["mods"]}
        c = h["classes"][case["k"]]["name"]

        def anc(x):
            out, seen = [], set()
            while x and x not in seen:
                seen.add(x)
                out.append(x)
                x = cls[x]["parent"]
            return out
        inst_pub, inst_all, klass = set(), set(), set()
        for a in anc(c):
            for name, l, v in cls[a]["imeths"]:
                inst_all.add(name)
                if v == "public":
                    inst_pub.add(name)
            for mname in cls[a]["inc"]:
                inst_pub |= {x[0] for x in mods[mname]["meths"]}
            for name, l in cls[a]["cmeths"]:
                klass.add(name)
            for mname in cls[a]["ext"]:
                klass |= {x[0] for x in mods[mname]["meths"]}
        everything = {m[0] for d in h["classes"] for m in d["imeths"]} | {m[0] for d in h["classes"] for m in d["cmeths"]} | {x[0] for m in h["mods"] for x in m["meths"]}
        if case["side"] == "inst":
            lines.append("o_%s." % c.lower())
            must = inst_pub
            must_not = everything - inst_all - inst_pub - klass
        else:
            n_inner = min(h.get("inner") or 0, len(h["classes"]))
            in_inner = n_inner and c in {d["name"] for d in h["classes"][len(h["classes"]) - n_inner:]}
            lines.append("%s%s." % ("Inn::" if in_inner else "", c))
            must = klass
            must_not = everything - klass - inst_all - inst_pub
        row = len(lines)
        lines.append("zz = 1")
        src = "\n".join(lines) + "\n"
        key = run.sha(src)
        labels = ["hier", "side:" + case["side"], "collide" if h.get("coll") else "no-collision"]
        sb = rt.sandbox()
        fn = sb.write(src)
        try:
            o = rt.runner.run(sb, fn, ["--suggest", "--row=%d" % row])
        finally:
            sb.remove(fn)
        if o.kind != "ok":
            return Verdict(None, labels, False, key, discard="crash" if o.kind == "crash" else "hang")
        got = {l[1:].split(":::")[0] for l in o.out.split("\n") if l.startswith("%")}
        nontrivial = bool(must)
        missing = sorted(must - got)
        foreign = sorted(got & must_not)
        base = {"form": "dot-next", "rkind": "hier-" + case["side"], "cls": c, "bind": True, "program": meta.with_rows(src)}
        vs = []
        if missing:
            vs.append(dict(base, what="generated hierarchy, %s receiver of %s: completion misses %s" % (case["side"], c, missing[:6]), kind="missing", missing=missing[:12]))
        if foreign:
            vs.append(dict(base, what="generated hierarchy, %s receiver of %s: completion lists %s which it cannot answer" % (case["side"], c, foreign[:6]), kind="foreign",
                           foreign=foreign[:12]))
        if vs:
            # every way the case fails is handed on: a listed finding (first entry) must not hide another failure
            return Verdict(dict(vs[0], also=vs[1:]), labels + ["mismatch"], nontrivial, key)
        return Verdict(None, labels, nontrivial, key)

    def evaluate(self, case, rt):
        if case.get("kind") == "hier":
            return self.evaluate_hier(case, rt)
        src, row = self.render(case)
        key = run.sha(src)
        labels = [case["kind"], case["form"], "bind" if case["bind"] else "direct", "cls:" + case["cls"]]
        sb = rt.sandbox()
        fn = sb.write(src)
        try:
            o = rt.runner.run(sb, fn, ["--suggest", "--row=%d" % row])
        finally:
            sb.remove(fn)
        if o.kind != "ok":
            return Verdict(None, labels, False, key, discard="crash" if o.kind == "crash" else "hang")
        got = {l[1:].split(":::")[0] for l in o.out.split("\n") if l.startswith("%")}
        c = case["cls"]
        if case["kind"] == "builtin":
            must = self.inst_methods(c)
            must_not = (USER_ALL | {n for n, cs in self.owners.items() if n not in must and n not in self.obj and n not in self.ker})
        elif case["kind"] == "user-inst":
            must = set(USER_INST[c])
            must_not = (USER_ALL - must) | {n for n, cs in self.owners.items() if n not in self.obj and n not in self.ker}
        else:
            must = set(USER_CLS[c])
            must_not = (USER_ALL - must)
        nontrivial = bool(must)
        missing = sorted(must - got)
        foreign = sorted(got & must_not)
        vs = []
        if missing:
            vs.append({"what": "%s receiver %s (%s): completion misses %s (listed %d names)" % (case["kind"], case["recv"], case["form"], missing[:6], len(got)),
                       "kind": "missing", "missing": missing[:12], "form": case["form"], "rkind": case["kind"], "cls": c, "bind": case["bind"],
                       "program": meta.with_rows(src)})
        if foreign:
            vs.append({"what": "%s receiver %s (%s): completion lists %s which the receiver cannot answer" % (case["kind"], case["recv"], case["form"], foreign[:6]),
                       "kind": "foreign", "foreign": foreign[:12], "form": case["form"], "rkind": case["kind"], "cls": c, "bind": case["bind"],
                       "program": meta.with_rows(src)})
        if case["kind"] != "user-class":
            ok_obj = len(self.obj & got) >= 0.8 * len(self.obj)
            if not ok_obj:
                vs.append({"what": "%s receiver %s (%s): Object/Kernel methods are not listed (%d of %d Object methods)" % (
                    case["kind"], case["recv"], case["form"], len(self.obj & got), len(self.obj)), "kind": "obj-kernel", "form": case["form"], "rkind": case["kind"],
                    "cls": c, "bind": case["bind"], "program": meta.with_rows(src)})
        if vs:
            # every way the case fails is handed on: a listed finding (first entry) must not hide another failure
            return Verdict(dict(vs[0], also=vs[1:]), labels + ["mismatch"], nontrivial, key)
        return Verdict(None, labels, nontrivial, key)

    def matchers(self):
        def m_shape(case, v, params):
            for k in ("kind", "form", "rkind", "cls"):
                if k in params and v.get(k) not in (params[k] if isinstance(params[k], list) else [params[k]]):
                    return False
            if "bind" in params and bool(v.get("bind")) != params["bind"]:
                return False
            return True
        def m_ext(case, v, params):
            """Class receiver of a generated hierarchy: every missing name is a method of a module the class (or an ancestor) extends."""
            if case.get("kind") != "hier" or case.get("side") != "class" or v.get("kind") != "missing":
                return False
            h = case["h"]
            modm = {x[0] for m in h["mods"] for x in m["meths"]}
            return bool(v.get("missing")) and all(n in modm for n in v["missing"])
        return {"c23_shape": m_shape, "c23_extended_module": m_ext}
