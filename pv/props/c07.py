"""C07 — definite misuse of configured builtin methods is reported on its line."""
import json

from hypothesis import strategies as st

from .. import callprog, cfg as cfgmod, meta, run
from ..engine import Prop, Verdict


class Check(Prop):
    ID = "C07"
    MODE = "must_err"
    RULE = ("cases = (generated configuration, program of 2-5 calls). Configurations: 2-4 classes with extends chains, instance/class "
            "methods with required/default/rest/keyword parameters, overloads, parameter and return types from {Int, Float, String, "
            "Symbol, Bool, NilClass, Untyped, generated classes, unions}. Calls: receivers K.new, class receivers and ternary unions of "
            "two classes; arguments literals, K.new and ternary unions aimed at / away from the declared types; wrong method names, "
            "counts, classes, missing keywords; optionally nested one level (if/unless/block). Oracle: an independent model of the "
            "documented call semantics gives MUST_ERR / MUST_OK / DONT_CARE per call line (nearest declaring class wins, overloads, "
            "Untyped accepts all, subclass-for-parent and rest element types are DONT_CARE); every MUST_ERR line must carry >= 1 "
            "diagnostic that is not a dbtp type line. Non-trivial = >= 1 MUST_ERR probe; distinct by (reason, declaration shape, "
            "argument shape).")
    ASSUMPTIONS = (
        "the model reads the abstract configuration, never ti's loader; only definite verdicts are asserted",
        "crashing/hanging runs are discarded here and counted",
        "violations seen through the in-process server are re-evaluated on the guard-off binary before being reported",
    )
    BUDGET = {"quick": 2500, "thorough": 40000}
    WALL = {"quick": 150, "thorough": 1500}

    def strategy(self):
        return st.one_of(callprog.call_program(), callprog.call_program(), callprog.call_program(untyped_ret=True))

    def sample(self, case):
        return {"program": callprog.source(case), "config": cfgmod.render_files(case["cfg"])}

    def judge(self, case, recs, vs):
        """Returns (violation or None, labels, nontrivial, keyparts)."""
        labels = []
        keyparts = []
        viol = None
        nontrivial = False
        for p, v, why, app in vs:
            labels.append(v)
            if v != "MUST_ERR":
                continue
            nontrivial = True
            labels.append("reason:" + why)
            keyparts.append("%s:%s:%s:%d" % (why, len(p["R"]), sorted(len(s) for s in p["pos"]), len(p["kws"])))
            diags = [t for k, r, t in recs if k == "E" and r == p["row"]]
            if not diags and viol is None:
                viol = {"what": "definite misuse (%s) not reported on row %d: %s.%s(pos=%s, kws=%s)" % (why, p["row"], p["R"], p["m"], p["pos"], p["kws"]),
                        "reason": why, "probe": p, "row_records": [list(x) for x in recs if x[1] in (p["row"], p["dbtp_row"])]}
        return viol, labels, nontrivial, keyparts

    def evaluate(self, case, rt):
        src = callprog.source(case)
        files = cfgmod.render_files(case["cfg"])
        vs, model = callprog.verdicts(case)
        key = run.sha(src, json.dumps(files, sort_keys=True))
        try:
            recs = meta.analyse(rt, src, [], config=files)
        except meta.Discard as d:
            return meta.discard_verdict(d, [], key)
        viol, labels, nontrivial, keyparts = self.judge(case, recs, vs)
        if case.get("wrap"):
            labels.append("nested")
        if any(len(p["R"]) > 1 for p in case["probes"]):
            labels.append("union-receiver")
        if viol is not None:
            viol["program"] = src
            viol["config"] = files
            decls = [d for c in viol["probe"]["R"] for d in model.decls(c, viol["probe"]["m"], viol["probe"].get("static", False))]
            viol["decls"] = decls
        return Verdict(viol, labels, nontrivial, run.sha(*keyparts) if keyparts else key)

    def matchers(self):
        from .c07_matchers import MATCHERS
        return MATCHERS
