"""C07 — definite misuse of configured builtin methods is reported on its line."""
import json

from hypothesis import strategies as st

from .. import callprog, cfg as cfgmod, meta, run
from ..engine import Prop, Verdict


class Check(Prop):
    ID = "C07"
    MODE = "must_err"
    RULE = ("cases = (generated configuration, program of 2-5 calls). Configurations: 2-4 classes with extends chains, instance/class "
            "methods with required/default/rest/keyword parameters, overloads, parameter and return types from {Int, Float, String, "
            "Symbol, Bool, NilClass, Untyped, generated classes, unions}. Calls: receivers K.new, class receivers and ternary unions of "
            "two classes; arguments literals, K.new and ternary unions aimed at / away from the declared types; wrong method names, "
            "counts, classes, missing keywords; optionally nested one level (if/unless/block). Oracle: an independent model of the "
            "documented call semantics gives MUST_ERR / MUST_OK / DONT_CARE per call line (nearest declaring class wins, overloads, "
            "Untyped accepts all, subclass-for-parent and rest element types are DONT_CARE); every MUST_ERR line must carry >= 1 "
            "diagnostic that is not a dbtp type line. Non-trivial = >= 1 MUST_ERR probe; distinct by (reason, declaration shape, "
            "argument shape).")
    ASSUMPTIONS = (
        "the model reads the abstract configuration, never ti's loader; only definite verdicts are asserted",
        "crashing/hanging runs are discarded here and counted",
        "violations seen through the in-process server are re-evaluated on the guard-off binary before being reported",
    )
    BUDGET = {"quick": 2500, "thorough": 40000}
    WALL = {"quick": 150, "thorough": 1500}

    def explicit(self):
        """Seed-independent: overload pairs (rest-bound of one type, fixed arity of another) called with one and two arguments too
        many, and with the right count; single declarations with every count from 0 to arity + 2."""
        lit = cfgmod.lit
        for ta, tb in (("Int", "String"), ("String", "Int"), ("Symbol", "Float"), ("Float", "Symbol")):
            for k in (1, 2, 3):
                for order in (0, 1):
                    rest_d = {"name": "m0", "args": [{"types": [ta], "key": None, "default": False, "rest": True}], "ret": ["Int"], "block": []}
                    fixed_d = {"name": "m0", "args": [{"types": [tb], "key": None, "default": False, "rest": False} for _ in range(k)], "ret": ["String"], "block": []}
                    ims = [rest_d, fixed_d] if order == 0 else [fixed_d, rest_d]
                    cfg = {"classes": [{"frame": "Builtin", "class": "Alpha", "extends": [], "imethods": ims,
                                        "cmethods": [{"name": "new", "args": [], "ret": ["Alpha"], "block": []}]}]}
                    lines, probes = [], []
                    for n, extra in ((k + 1, tb), (k + 2, tb), (k, tb), (k + 1, "Symbol" if ta != "Symbol" else "Int"), (0, tb)):
                        i = len(probes)
                        lines.append("v%d = Alpha.new" % i)
                        vals = [tb] * min(n, k) + [extra] * max(0, n - k)
                        lines.append("r%d = v%d.m0(%s)" % (i, i, ", ".join(lit(cfgmod.cls_of(t)) for t in vals)))
                        lines.append("dbtp r%d" % i)
                        probes.append({"row": len(lines) - 1, "R": ["Alpha"], "m": "m0", "pos": [[cfgmod.cls_of(t)] for t in vals], "kws": {}, "static": False,
                                       "var": "r%d" % i, "dbtp_row": len(lines)})
                    yield {"cfg": cfg, "lines": lines, "probes": probes, "wrap": None}

        # a rest-bound declaration that rejects for another reason (missing keyword, wrong trailing type) before a fixed-arity one
        def A(types, **kw):
            d = {"types": types, "key": None, "default": False, "rest": False}
            d.update(kw)
            return d
        shapes = [
            ([A(["Untyped"], rest=True), A(["Int"], key="tag")], [A(["Int"])], [["Integer", "Integer"], ["Integer", "Integer", "Integer"], ["Integer"]]),
            ([A(["Untyped"], rest=True), A(["String"])], [A(["Int"])], [["Integer", "Integer", "Integer"], ["Integer", "Integer"], ["Integer"]]),
            ([A(["Untyped"], rest=True), A(["String"])], [A(["Int"]), A(["Int"])], [["Integer", "Integer", "Integer"], ["Integer", "Integer"]]),
        ]
        for first, second, calls in shapes:
            ims = [{"name": "m0", "args": first, "ret": ["Int"], "block": []}, {"name": "m0", "args": second, "ret": ["String"], "block": []}]
            cfg = {"classes": [{"frame": "Builtin", "class": "Alpha", "extends": [], "imethods": ims,
                                "cmethods": [{"name": "new", "args": [], "ret": ["Alpha"], "block": []}]}]}
            lines, probes = [], []
            for vals in calls:
                i = len(probes)
                lines.append("v%d = Alpha.new" % i)
                lines.append("r%d = v%d.m0(%s)" % (i, i, ", ".join(lit(c) for c in vals)))
                lines.append("dbtp r%d" % i)
                probes.append({"row": len(lines) - 1, "R": ["Alpha"], "m": "m0", "pos": [[c] for c in vals], "kws": {}, "static": False,
                               "var": "r%d" % i, "dbtp_row": len(lines)})
            yield {"cfg": cfg, "lines": lines, "probes": probes, "wrap": None}

    def strategy(self):
        return st.one_of(callprog.call_program(), callprog.call_program(), callprog.call_program(untyped_ret=True))

    def sample(self, case):
        return {"program": callprog.source(case), "config": cfgmod.render_files(case["cfg"])}

    def judge(self, case, recs, vs):
        """Returns (violation or None, labels, nontrivial, keyparts)."""
        labels = []
        keyparts = []
        viol = None
        nontrivial = False
        for p, v, why, app in vs:
            labels.append(v)
            if v != "MUST_ERR":
                continue
            nontrivial = True
            labels.append("reason:" + why)
            keyparts.append("%s:%s:%s:%d" % (why, len(p["R"]), sorted(len(s) for s in p["pos"]), len(p["kws"])))
            diags = [t for k, r, t in recs if k == "E" and r == p["row"]]
            if not diags and viol is None:
                viol = {"what": "definite misuse (%s) not reported on row %d: %s.%s(pos=%s, kws=%s)" % (why, p["row"], p["R"], p["m"], p["pos"], p["kws"]),
                        "reason": why, "probe": p, "row_records": [list(x) for x in recs if x[1] in (p["row"], p["dbtp_row"])]}
        return viol, labels, nontrivial, keyparts

    def evaluate(self, case, rt):
        src = callprog.source(case)
        files = cfgmod.render_files(case["cfg"])
        vs, model = callprog.verdicts(case)
        key = run.sha(src, json.dumps(files, sort_keys=True))
        try:
            recs = meta.analyse(rt, src, [], config=files)
        except meta.Discard as d:
            return meta.discard_verdict(d, [], key)
        viol, labels, nontrivial, keyparts = self.judge(case, recs, vs)
        if case.get("wrap"):
            labels.append("nested")
        if any(len(p["R"]) > 1 for p in case["probes"]):
            labels.append("union-receiver")
        if viol is not None:
            viol["program"] = src
            viol["config"] = files
            decls = [d for c in viol["probe"]["R"] for d in model.decls(c, viol["probe"]["m"], viol["probe"].get("static", False))]
            viol["decls"] = decls
        return Verdict(viol, labels, nontrivial, run.sha(*keyparts) if keyparts else key)

    def matchers(self):
        from .c07_matchers import MATCHERS
        return MATCHERS
