"""C15 — user method parameter and return types are inferred from all call sites."""
import re

from hypothesis import strategies as st

from .. import meta, out as outmod, run
from ..engine import Prop, Verdict

SC = [("1", "Integer"), ('"s"', "String"), ("1.5", "Float"), (":a", "Symbol"), ("nil", "NilClass"), ("true", "Bool")]


@st.composite
def methods_program(draw):
    nm = draw(st.integers(1, 4))
    meths = []
    for i in range(nm):
        np_ = draw(st.sampled_from([1, 1, 2, 3]))
        # the first parameter is always a0 (the bodies use it); in the second pool one keyword name is the other plus a digit, so
        # the order of the names with and without their colon differs ("k10:" < "k1:")
        pnames = ["a0"] + draw(st.sampled_from([["a1", "a2"], ["k1", "k10"], ["opt", "opt2"]]))
        params = []
        for j in range(np_):
            kind = "pos" if j == 0 else draw(st.sampled_from(["pos", "pos", "def", "kw", "kwdef"]))
            if j > 0 and params[-1][1] in ("kw", "kwdef") and kind in ("pos", "def"):
                kind = "kw"
            if j > 0 and params[-1][1] == "def" and kind == "pos":
                kind = "def"
            d = draw(st.integers(0, len(SC) - 1)) if kind in ("def", "kwdef") else None
            params.append([pnames[j], kind, d])
        body = draw(st.sampled_from(["ident", "lit", "arr", "ret", "ident", "lit"]))
        fwd = None
        if i > 0 and draw(st.integers(0, 2)) == 0:
            # forward the own first parameter unchanged to an earlier method and return its result
            body = "forward"
            fwd = draw(st.integers(0, i - 1))
            if meths[fwd]["body"] == "forward" and draw(st.integers(0, 4)) > 0:
                # chains of forwarders (depth >= 2) are a listed finding: mostly avoided, kept alive at low weight
                cands = [j for j in range(i) if meths[j]["body"] != "forward"]
                fwd = cands[draw(st.integers(0, len(cands) - 1))] if cands else fwd
        op = draw(st.sampled_from([None, None, "fail", "ok"]))
        meths.append({"name": "f%d" % i, "params": params, "body": body, "lit": draw(st.integers(0, len(SC) - 1)), "op": op, "fwd": fwd})
    calls = []
    for m in meths:
        for _ in range(draw(st.integers(1, 5))):
            args = []
            for pn, kind, d in m["params"]:
                if kind in ("def", "kwdef") and draw(st.booleans()):
                    args.append(None)
                else:
                    args.append(draw(st.integers(0, len(SC) - 1)))
            # a positional default can only be omitted when all later positional defaults are omitted too
            seen_none = False
            for k, (pn, kind, d) in enumerate(m["params"]):
                if kind == "def":
                    if seen_none:
                        args[k] = None
                    if args[k] is None:
                        seen_none = True
            calls.append({"name": m["name"], "args": args, "where": draw(st.sampled_from(["before", "after", "after", "after", "inmeth", "inmeth"]))})
    return {"meths": meths, "calls": calls}


def render(case):
    meths, calls = case["meths"], case["calls"]
    P = {m["name"]: m for m in meths}

    def render_call(c):
        m = P[c["name"]]
        parts = []
        for (pn, kind, d), a in zip(m["params"], c["args"]):
            if a is None:
                continue
            parts.append(("%s: %s" % (pn, SC[a][0])) if kind in ("kw", "kwdef") else SC[a][0])
        return "%s(%s)" % (c["name"], ", ".join(parts))
    pt = {m["name"]: [set() for _ in m["params"]] for m in meths}
    for c in calls:
        m = P[c["name"]]
        for i, a in enumerate(c["args"]):
            if a is not None:
                pt[c["name"]][i].add(SC[a][1])
    for m in meths:
        for i, (pn, kind, d) in enumerate(m["params"]):
            if d is not None:
                pt[m["name"]][i].add(SC[d][1])

    # forwarding: the callee's first parameter also receives everything the forwarder's first parameter receives;
    # the other parameters of the callee get the literal the forwarder passes (Integer)
    changed = True
    while changed:
        changed = False
        for m in meths:
            if m["body"] != "forward":
                continue
            callee = meths[m["fwd"]]
            before = [set(x) for x in pt[callee["name"]]]
            pt[callee["name"]][0] |= pt[m["name"]][0]
            for i, (pn, kind, d) in enumerate(callee["params"]):
                if i > 0 and kind in ("pos", "kw"):
                    pt[callee["name"]][i].add("Integer")
            if before != pt[callee["name"]]:
                changed = True

    def fwd_call(m):
        callee = meths[m["fwd"]]
        parts = ["a0"]
        for i, (pn, kind, d) in enumerate(callee["params"]):
            if i == 0:
                continue
            if kind == "pos":
                parts.append("1")
            elif kind == "kw":
                parts.append("%s: 1" % pn)
        return "%s(%s)" % (callee["name"], ", ".join(parts))

    def ret_type(name, depth=0):
        m = P[name]
        if m["body"] == "forward":
            return ret_type(meths[m["fwd"]]["name"], depth + 1) if depth < 6 else None
        if m["body"] == "ident":
            return sorted(pt[name][0])
        if m["body"] == "lit":
            return [SC[m["lit"]][1]]
        if m["body"] == "ret":
            return sorted(set(pt[name][0]) | {SC[m["lit"]][1]})
        return None
    lines, probes = [], []
    k = [0]

    def emit_call(c, ind):
        lines.append("%sr%d = %s" % (ind, k[0], render_call(c)))
        rt = ret_type(c["name"])
        lines.append("%sdbtp r%d" % (ind, k[0]))
        if rt is not None:
            probes.append([len(lines), "ret", rt, c["where"]])
        k[0] += 1
    for c in calls:
        if c["where"] == "before":
            emit_call(c, "")
    for m in meths:
        sig = ", ".join(pn if kind == "pos" else "%s = %s" % (pn, SC[d][0]) if kind == "def" else "%s:" % pn if kind == "kw" else "%s: %s" % (pn, SC[d][0])
                        for pn, kind, d in m["params"])
        lines.append("def %s(%s)" % (m["name"], sig))
        probes.append([len(lines), "sig", [sorted(s) for s in pt[m["name"]]], m["name"]])
        for i, (pn, kind, d) in enumerate(m["params"]):
            lines.append("  dbtp %s" % pn)
            probes.append([len(lines), "param", sorted(pt[m["name"]][i]), "%s:%s" % (m["name"], kind)])
        if m["op"] == "fail":
            lines.append("  a0.zz_nope_method")
            probes.append([len(lines), "must-diag", None, "op-fails-for-all"])
        elif m["op"] == "ok":
            lines.append("  a0.to_s")
            probes.append([len(lines), "no-diag", None, "op-succeeds-for-all"])
        if m["body"] == "forward":
            lines.append("  " + fwd_call(m))
        elif m["body"] == "ident":
            lines.append("  a0")
        elif m["body"] == "lit":
            lines.append("  " + SC[m["lit"]][0])
        elif m["body"] == "arr":
            lines.append("  [a0]")
        else:
            lines += ["  if a0.nil?", "    return " + SC[m["lit"]][0], "  end", "  a0"]
        lines.append("end")
    lines.append("def caller_m")
    for c in calls:
        if c["where"] == "inmeth":
            emit_call(c, "  ")
    lines += ["  1", "end", "caller_m()"]
    for c in calls:
        if c["where"] == "after":
            emit_call(c, "")
    return "\n".join(lines) + "\n", probes


def split_sig(text):
    """'(Union<Integer String>, default Integer, k: default Integer) -> T [i/public]' -> list of parameter type strings."""
    m = re.match(r"\((.*)\) -> ", text)
    if not m:
        return None
    inner, out, depth, cur = m.group(1), [], 0, ""
    for ch in inner:
        if ch == "<":
            depth += 1
        elif ch == ">":
            depth -= 1
        if ch == "," and depth == 0:
            out.append(cur.strip())
            cur = ""
        else:
            cur += ch
    if cur.strip():
        out.append(cur.strip())
    res = []
    for p in out:
        p = re.sub(r"^[a-z_]\w*: ?", "", p)
        p = re.sub(r"^default ", "", p)
        res.append(p)
    return res


class Check(Prop):
    ID = "C15"
    RULE = ("cases = generated programs with 1-4 top-level user methods (positional, default, keyword and defaulted keyword "
            "parameters), bodies with model-known results (return the first parameter, a literal, an array, an early `return` literal "
            "in a conditional, forwarding the own first parameter unchanged to an earlier method, plus optionally one body operation), 1-5 call sites each with literal arguments of 6 classes, placed before "
            "the definition, after it, and inside another method. Oracle: (i) `dbtp param` inside the body is a superset of the union of "
            "the argument types of all call sites plus the default's type; (ii) the -i signature hint on the def row lists parameter "
            "types that are supersets of the same; (iii) `dbtp f(...)` equals the model's result under that union typing (for the "
            "identity / literal / early-return bodies); (iv) a body operation that fails for every possible argument type "
            "(undefined method) has a diagnostic on its row, one that succeeds for all (Object#to_s) has none. Non-trivial = a method "
            "with >= 2 call sites of different types, a call before the definition, or a call from inside another method.")
    ASSUMPTIONS = (
        "crashing/hanging runs are discarded here and counted",
        "violations seen through the in-process server are re-evaluated on the guard-off binary before being reported",
    )
    BUDGET = {"quick": 2000, "thorough": 30000}
    WALL = {"quick": 150, "thorough": 1500}

    def strategy(self):
        return methods_program()

    def sample(self, case):
        return {"program": render(case)[0]}

    def evaluate(self, case, rt):
        src, probes = render(case)
        key = run.sha(src)
        labels = []
        try:
            recs = meta.analyse(rt, src, ["-i"])
        except meta.Discard as d:
            return meta.discard_verdict(d, labels, key)
        types, hints, diags = {}, {}, {}
        for k, r, t in recs:
            if k == "H":
                hints.setdefault(r, []).append(t)
            elif " " in t and not t.startswith(("Array<", "Union<")):
                diags.setdefault(r, []).append(t)
            else:
                types.setdefault(r, []).append(t)
        nontrivial = any(c["where"] != "after" for c in case["calls"]) or any(
            len({tuple(c["args"]) for c in case["calls"] if c["name"] == m["name"]}) >= 2 for m in case["meths"])

        def bad(row, what, detail, want, got):
            return Verdict({"what": "row %d (%s %s): model %s, ti %s" % (row, what, detail, want, got), "kind": what, "detail": detail,
                            "row_records": [list(x) for x in recs if x[1] in (row - 1, row)], "program": meta.with_rows(src)},
                           labels + ["mismatch"], nontrivial, key)
        for row, what, want, detail in probes:
            labels.append(what if what != "ret" else "ret:" + detail)
            if what == "must-diag":
                if not diags.get(row):
                    return bad(row, what, detail, "diagnostic", "none")
                continue
            if what == "no-diag":
                if diags.get(row):
                    return bad(row, what, detail, "no diagnostic", diags[row][:2])
                continue
            if what == "sig":
                hs = [h for h in hints.get(row, []) if h.startswith("(")]
                if not hs:
                    return bad(row, what, detail, "a signature hint", "none")
                ps = split_sig(hs[-1])
                if ps is None or len(ps) != len(want):
                    return bad(row, what, detail, want, hs[-1])
                for w, g in zip(want, ps):
                    try:
                        gs = outmod.parse_type(g)
                    except outmod.TypeParseError:
                        gs = frozenset([g])
                    if not (gs >= frozenset(w)) and "untyped" not in gs:
                        return bad(row, what, detail, want, hs[-1])
                continue
            got = types.get(row, ["<none>"])[-1]
            try:
                g = outmod.parse_type(got)
            except outmod.TypeParseError:
                g = frozenset([got])
            if what == "param":
                if not (g >= frozenset(want)) and "untyped" not in g:
                    return bad(row, what, detail, want, got)
            else:
                if g != frozenset(want):
                    return bad(row, what, detail, want, got)
        return Verdict(None, labels, nontrivial, key)

    def matchers(self):
        def m_kind(case, v, params):
            return v.get("kind") == params.get("kind") and re.fullmatch(params.get("detail_pattern", ".*"), v.get("detail") or "") is not None

        def m_before_def(case, v, params):
            """A call written before the definition of a method with >= 3 parameters gets a false `type mismatch` for the types a
            later call site passes; identified by the call position, the parameter count and the message on the call row."""
            if v.get("kind") in ("param", "sig"):
                # the same defect seen from inside: the parameter (or the signature) misses the types of one of the two call groups
                name = (v.get("detail") or "").split(":")[0]
                ms = [m for m in case["meths"] if m["name"] == name and len(m["params"]) >= 3]
                wh = {c["where"] for c in case["calls"] if c["name"] == name}
                return bool(ms) and "before" in wh and bool(wh & {"after", "inmeth"})
            if v.get("kind") != "ret" or v.get("detail") != "before":
                return False
            msgs = [r[2] for r in v.get("row_records", []) if r[0] == "E" and "type mismatch: expected" in r[2]]
            if not msgs:
                return False
            names = {m["name"] for m in case["meths"] if len(m["params"]) >= 3}
            return any(mm.endswith("for " + n) for mm in msgs for n in names)
        def m_before_forward(case, v, params):
            """The result of a call written before the definitions is a strict subset of the model's type in a program where a method
            forwards its parameter to another one (the call's result is computed before the forwarded types arrive)."""
            if v.get("kind") != "ret" or v.get("detail") != "before":
                return False
            if not any(m.get("body") == "forward" for m in case["meths"]):
                return False
            m_ = re.search(r"model (\[.*?\]), ti (.*)$", v.get("what") or "")
            if not m_:
                return False
            want = set(re.findall(r"'(\w+)'", m_.group(1)))
            try:
                got = set(outmod.parse_type(m_.group(2)))
            except outmod.TypeParseError:
                return False
            return bool(got) and got < want
        def m_chain(case, v, params):
            """Types do not travel through two forwarding methods (f3 -> f1 -> f0) within ti's fixed number of rounds: some probe shows a
            strict subset of the model's type in a program that contains such a chain."""
            ms = case["meths"]
            if not any(m.get("body") == "forward" and ms[m["fwd"]].get("body") == "forward" for m in ms):
                return False
            m_ = re.search(r"model (\[.*?\]), ti (.*)$", v.get("what") or "")
            if not m_ or v.get("kind") not in ("ret", "param", "sig"):
                return False
            want = set(re.findall(r"'(\w+)'", m_.group(1)))
            got = set(re.findall(r"[A-Z]\w+", m_.group(2))) - {"Union"}
            return bool(got) and got < want
        return {"c15_kind": m_kind, "c15_call_before_def_3params": m_before_def, "c15_call_before_def_forwarded": m_before_forward,
                "c15_forward_chain": m_chain}
