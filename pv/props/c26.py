"""C26 — c2json signatures accept exactly the argument counts the C binding accepts."""
import json
import os
import shutil
import subprocess
import tempfile

from hypothesis import strategies as st

from .. import meta, run
from ..engine import Prop, Verdict

FMT = {"i": "1", "f": "1.5", "s": '"s"', "z": '"s"', "S": '"s"', "A": "[1]", "a": "[1]", "H": "{a: 1}", "b": "true", "n": ":a", "o": "1", "C": "1"}
RET = ["return mrb_fixnum_value(1);", "return mrb_str_new_cstr(mrb, \"x\");", "return mrb_float_value(mrb, 1.0);", "return mrb_true_value();"]


@st.composite
def binding(draw, idx):
    """One method: returns dict(api, spec, fmt, body lines, accepted (lo, hi|None), argvals(k) template, name)."""
    name = "meth%d" % idx
    fn = "c_%s" % name
    api = draw(st.sampled_from(["mrb_define_class_method", "mrb_define_class_method", "mrb_define_class_method_id", "mrbc_define_class_method"]))
    if api == "mrbc_define_class_method":
        r = draw(st.integers(0, 2))
        o = draw(st.integers(0, 1))
        kinds = [draw(st.sampled_from(["INT", "FLOAT", "STRING"])) for _ in range(r + o)]
        body = []
        for i in range(r):
            body.append("  int v%d = GET_%s_ARG(%d);" % (i, kinds[i], i + 1) if kinds[i] == "INT" else "  mrbc_value v%d = GET_%s_ARG(%d);" % (i, kinds[i], i + 1))
        if o:
            body.append("  if (argc >= %d) {" % (r + 1))
            body.append("    mrbc_value w = GET_%s_ARG(%d);" % (kinds[r], r + 1))
            body.append("  }")
        body.append("  SET_INT_RETURN(1);")
        vals = [{"INT": "1", "FLOAT": "1.5", "STRING": '"s"'}[k] for k in kinds]
        src = ["void %s(mrbc_vm *vm, mrbc_value v[], int argc)" % fn, "{"] + body + ["}"]
        define = '  mrbc_define_class_method(vm, cls, "%s", %s);' % (name, fn)
        if r + o == 0:
            return {"name": name, "src": src, "define": define, "lo": 0, "hi": None, "vals": [], "kind": "mrbc-noargs", "assert": False}
        return {"name": name, "src": src, "define": define, "lo": r, "hi": r + o, "vals": vals, "kind": "mrbc-get-arg", "assert": True}
    use_fmt = draw(st.booleans())
    if use_fmt:
        req = [draw(st.sampled_from(list("ifsSzAHbnoC"))) for _ in range(draw(st.integers(0, 3)))]
        opt = [draw(st.sampled_from(list("ifsSAHbno"))) for _ in range(draw(st.integers(0, 2)))]
        rest = draw(st.integers(0, 5)) == 0
        blk = draw(st.integers(0, 5)) == 0
        fmt = "".join(c + (draw(st.sampled_from(["", "", "!"])) if c in "SAH" else "") for c in req)
        if opt or draw(st.integers(0, 6)) == 0:
            fmt += "|" + "".join(opt)
        if rest:
            fmt += "*"
        if blk:
            fmt += "&"
        if not fmt:
            fmt = "|"
        spec = []
        if req:
            spec.append("MRB_ARGS_REQ(%d)" % len(req))
        if opt:
            spec.append("MRB_ARGS_OPT(%d)" % len(opt))
        if rest:
            spec.append("MRB_ARGS_REST()")
        if blk:
            spec.append("MRB_ARGS_BLOCK()")
        if not spec:
            spec = ["MRB_ARGS_NONE()"]
        body = ["  mrb_get_args(mrb, \"%s\"%s);" % (fmt, "".join(", &x%d" % i for i in range(len(req) + len(opt)))), "  " + draw(st.sampled_from(RET))]
        lo, hi = len(req), (None if rest else len(req) + len(opt))
        vals = [FMT[c] for c in req + opt]
        kind = "get-args-format"
    else:
        r, o, p = draw(st.integers(0, 3)), draw(st.integers(0, 2)), draw(st.integers(0, 1))
        rest = draw(st.integers(0, 3)) == 0
        blk = draw(st.integers(0, 5)) == 0
        anyargs = draw(st.integers(0, 9)) == 0
        spec = []
        if anyargs:
            spec = ["MRB_ARGS_ANY()"]
            lo, hi = 0, None
        else:
            if r:
                spec.append("MRB_ARGS_REQ(%d)" % r)
            if o:
                spec.append("MRB_ARGS_OPT(%d)" % o)
            if rest:
                spec.append("MRB_ARGS_REST()")
            if p and rest:
                spec.append("MRB_ARGS_POST(%d)" % p)
            else:
                p = 0
            if blk:
                spec.append("MRB_ARGS_BLOCK()")
            if not spec:
                spec = ["MRB_ARGS_NONE()"]
            lo, hi = r + p, (None if rest else r + o)
        body = ["  mrb_int n = mrb_get_argc(mrb);", "  " + draw(st.sampled_from(RET))]
        vals = []
        kind = "args-spec-only" + ("-combined" if len(spec) > 1 else "")
    order = list(draw(st.permutations(spec)))
    spec_text = draw(st.sampled_from([" | ", "|", " |"])).join(order)
    if api == "mrb_define_class_method_id":
        define = "  mrb_define_class_method_id(mrb, cls, MRB_SYM(%s), %s, %s);" % (name, fn, spec_text)
    else:
        define = '  mrb_define_class_method(mrb, cls, "%s", %s, %s);' % (name, fn, spec_text)
    src = ["static mrb_value %s(mrb_state *mrb, mrb_value self)" % fn, "{"] + body + ["}"]
    return {"name": name, "src": src, "define": define, "lo": lo, "hi": hi, "vals": vals, "kind": kind, "assert": True,
            "post_with_opt": bool(not use_fmt and not anyargs and o and rest and p)}


@st.composite
def c_source(draw):
    ms = [draw(binding(i)) for i in range(draw(st.integers(1, 4)))]
    # one C function registered under a second Ruby name with another MRB_ARGS spec (the function reads its arguments with
    # mrb_get_argc, so each registration's own spec is the only statement of its counts)
    for m in list(ms):
        if m["kind"].startswith("args-spec-only") and "mrb_define_class_method(" in m["define"] and draw(st.integers(0, 2)) == 0:
            r2, o2 = draw(st.sampled_from([(0, 0), (1, 0), (2, 0), (3, 0), (1, 1), (0, 2), (4, 0)]))
            spec2 = ([("MRB_ARGS_REQ(%d)" % r2)] if r2 else []) + ([("MRB_ARGS_OPT(%d)" % o2)] if o2 else []) or ["MRB_ARGS_NONE()"]
            fn = "c_" + m["name"]
            al = m["name"] + "_al"
            ms.append({"name": al, "src": [], "define": '  mrb_define_class_method(mrb, cls, "%s", %s, %s);' % (al, fn, " | ".join(spec2)),
                       "lo": r2, "hi": r2 + o2, "vals": [], "kind": "args-spec-only-alias", "assert": True, "post_with_opt": False})
    return {"methods": ms}


def render_c(case):
    out = ["#include <mruby.h>", ""]
    for m in case["methods"]:
        out += m["src"] + [""]
    out += ["void mrb_mruby_cbind_gem_init(mrb_state *mrb)", "{", "  struct RClass *cls = mrb_define_class(mrb, \"Cbind\", mrb->object_class);"]
    out += [m["define"] for m in case["methods"]]
    out += ["}", ""]
    return "\n".join(out)


class Check(Prop):
    ID = "C26"
    WANT = ("ti", "server", "c2json")
    SHARDS = 4
    RULE = ("cases = generated C sources with 1-4 class-method bindings through mrb_define_class_method, mrb_define_class_method_id or "
            "mrbc_define_class_method; argument handling either a mrb_get_args format (required chars out of i f s S z A H b n o C with "
            "optional `!`, `|` optional section, `*`, `&`) with the matching MRB_ARGS spec, or an MRB_ARGS spec alone (REQ/OPT/REST/POST/"
            "BLOCK/NONE/ANY in any order, joined with |; one function may be registered under a second name with another spec), or GET_*_ARG(n) with an `argc >= n` guard for mrbc. Ground truth = accepted "
            "positional counts [lo, hi]. Oracle: two conversions are byte-identical; with the emitted JSON as the only class in the "
            ".ti-config (plus Object/Kernel), `Cbind.m(k args)` for k = 0..6 with values of the inferred types has no diagnostic exactly "
            "when lo <= k <= hi. Non-trivial = a binding with optional/rest/post arguments or a combined spec; distinct by SHA-1(C source).")
    ASSUMPTIONS = (
        "the generated C is only ever read by the converter's regular expressions; it is not compiled",
        "methods whose inferred return type is Untyped are avoided (the bodies return a concrete value)",
    )
    BUDGET = {"quick": 400, "thorough": 6000}
    WALL = {"quick": 150, "thorough": 1500}

    def __init__(self, *a):
        Prop.__init__(self, *a)
        d = os.path.join(self.repo, "test", ".ti-config")
        self.core = {f: open(os.path.join(d, f)).read() for f in ("object.json", "kernel.json", "integer.json", "string.json", "float.json", "array.json", "hash.json",
                                                                   "symbol.json", "bool.json", "true.json", "false.json", "nil.json", "enumerable.json")}

    def strategy(self):
        return c_source()

    def sample(self, case):
        return {"c_source": render_c(case)[:1200]}

    def evaluate(self, case, rt):
        csrc = render_c(case)
        key = run.sha(csrc)
        labels = sorted({"kind:" + m["kind"] for m in case["methods"]})
        work = tempfile.mkdtemp(prefix="c26-", dir=rt.root)
        try:
            cf = os.path.join(work, "cbind.c")
            with open(cf, "w") as fh:
                fh.write(csrc)
            outs = []
            for _ in range(2):
                r = subprocess.run([self.bins.c2json, "-class", "Cbind", cf], stdout=subprocess.PIPE, stderr=subprocess.PIPE, cwd=work, timeout=30)
                if r.returncode != 0:
                    return Verdict({"what": "c2json exit %d: %s" % (r.returncode, r.stderr.decode("utf8", "replace")[-300:]), "kind": "converter-error", "inproc_is_truth": True}, labels, False, key)
                outs.append(r.stdout)
            nontrivial = any(m["hi"] is None or m["hi"] != m["lo"] or "combined" in m["kind"] for m in case["methods"])
            if outs[0] != outs[1]:
                return Verdict({"what": "two conversions of the same C file differ", "kind": "nondeterministic", "inproc_is_truth": True}, labels, nontrivial, key)
            try:
                cfg = json.loads(outs[0].decode("utf8"))
            except ValueError:
                return Verdict({"what": "output is not JSON: %r" % outs[0][:200], "kind": "converter-error", "inproc_is_truth": True}, labels, nontrivial, key)
            emitted = {m["name"]: m for m in (cfg.get("class_methods") or [])}
            files = dict(self.core)
            files["zz_cbind.json"] = outs[0].decode("utf8")
            lines, exp = [], []
            for m in case["methods"]:
                if not m["assert"]:
                    continue
                if m["name"] not in emitted:
                    return Verdict({"what": "binding %s is missing from the emitted class_methods %s" % (m["name"], sorted(emitted)), "kind": "missing-method",
                                    "c_source": csrc, "inproc_is_truth": True}, labels, nontrivial, key)
                for k in range(0, 7):
                    vals = [(m["vals"][i] if i < len(m["vals"]) else "1") for i in range(k)]
                    lines.append("Cbind.%s(%s)" % (m["name"], ", ".join(vals)))
                    ok = k >= m["lo"] and (m["hi"] is None or k <= m["hi"])
                    exp.append((len(lines), ok, m, k))
            if not exp:
                return Verdict(None, labels, False, key)
            src = "\n".join(lines) + "\n"
            try:
                recs = meta.analyse(rt, src, [], config=files)
            except meta.Discard as d:
                return meta.discard_verdict(d, labels, key)
            rows = {}
            for k_, r, t in recs:
                rows.setdefault(r, []).append(t)
            for row, ok, m, k in exp:
                if ok == bool(rows.get(row)):
                    return Verdict({"what": "%s (%s): the C binding %s %d argument(s) [accepts %d..%s], ti says %s; emitted %s" % (
                        m["name"], m["define"].strip(), "accepts" if ok else "rejects", k, m["lo"], m["hi"], rows.get(row) or "accepted",
                        json.dumps(emitted[m["name"]].get("arguments"))), "kind": "arity", "mkind": m["kind"], "define": m["define"], "k": k, "lo": m["lo"], "hi": m["hi"],
                        "post_with_opt": m.get("post_with_opt", False), "c_source": csrc, "emitted": outs[0].decode("utf8")[:3000]}, labels + ["arity"], nontrivial, key)
            return Verdict(None, labels, nontrivial, key)
        finally:
            shutil.rmtree(work, ignore_errors=True)

    def matchers(self):
        def m_kind(case, v, params):
            import re
            if v.get("kind") != "arity":
                return False
            if params.get("post_with_opt") and not (v.get("post_with_opt") and v.get("k", 99) < v.get("lo", 0)):
                return False
            if "mkind" in params and v.get("mkind") not in params["mkind"]:
                return False
            if "define_pattern" in params and not re.search(params["define_pattern"], v.get("define") or ""):
                return False
            return True
        return {"c26_shape": m_kind}
