"""C01 — the analyzer never crashes, whatever source it is given."""
import re

from hypothesis import strategies as st

from .. import corpus, mutate, out, run
from ..engine import Prop, Verdict


def line_grammar_violations(text, file):
    recs, bad = out.parse_lines(text, file)
    return bad


def classify_src(src):
    labels = []
    if not src.endswith("\n"):
        labels.append("no-final-newline")
    if "\x00" in src:
        labels.append("nul")
    if any(ord(c) > 127 for c in src):
        labels.append("non-ascii")
    return labels


class Check(Prop):
    ID = "C01"
    RULE = ("cases = (source bytes, flags in {none, -i}); enumerated: every line prefix (with/without final newline) of a "
            "fixed subset of the golden corpus; generated: token/line prefixes, 1-3 stacked token mutations with a hostile "
            "dictionary, concatenated hostile fragments, raw bytes and unicode text. Oracle: real analysis rounds finish "
            "without a Go panic/fatal error (exit 0, empty stderr on the real binary) and every stdout line matches "
            "<file>:::<row>:::msg or @<file>:::<row>:::... . Non-trivial = input not byte-identical to a corpus file and "
            ">= 5 tokens; distinct by SHA-1(input, flags).")
    ASSUMPTIONS = (
        "in-process server mirrors main()'s goroutine body; every candidate is re-run on the guard-off ti binary before it is reported",
        "a watchdog `timeout` is C02's concern and only counted here",
    )
    BUDGET = {"quick": 1800, "thorough": 40000}
    WALL = {"quick": 150, "thorough": 1500}
    QUICK_FILES = 60
    THOROUGH_FILES = 400

    def __init__(self, *a):
        Prop.__init__(self, *a)
        self.progs = corpus.plain(self.repo)
        self.texts = mutate.Texts(p.l1 for p in self.progs if len(p.l1) < 6000)
        self.corpus_set = set(p.l1 for p in self.progs)

    def explicit(self):
        nfiles = self.QUICK_FILES if self.tier == "quick" else self.THOROUGH_FILES
        small = [p for p in self.progs if p.l1.count("\n") <= 60]
        # fixed rule: every (len/nfiles)-th small file in name order
        step = max(1, len(small) // nfiles)
        chosen = small[::step][:nfiles]
        for p in chosen:
            for i, pre in enumerate(mutate.prefixes_of(p.l1)):
                yield {"src": pre, "flags": ["-i"] if i % 2 else [], "origin": "enum-prefix:" + p.name}
        if self.tier == "thorough":
            for p in self.progs:
                yield {"src": p.l1, "flags": [], "origin": "corpus:" + p.name}
                yield {"src": p.l1, "flags": ["-i"], "origin": "corpus:" + p.name}

    def strategy(self):
        texts = self.texts
        src = st.one_of(
            mutate.prefix_of(texts),
            mutate.mutated(texts),
            mutate.mutated(texts),
            mutate.fragments(),
            mutate.raw_latin1(),
            mutate.raw_text(),
        )
        return st.fixed_dictionaries({"src": src, "flags": st.sampled_from([[], ["-i"]])})

    def sample(self, case):
        return {"src": case["src"][:400], "flags": case["flags"], "origin": case.get("origin", "generated")}

    def evaluate(self, case, rt):
        src = case["src"]
        flags = case["flags"]
        o, fn = rt.run_src(src, flags, latin1=True, keep=True)
        sb = rt.sandbox()
        try:
            if o.kind == "dead":
                o = rt.runner.run(sb, fn, flags, force_blackbox=True)
            labels = classify_src(src)
            ntok = len(mutate.tokens(src))
            nontrivial = ntok >= 5 and src not in self.corpus_set
            key = run.sha(src, " ".join(flags))
            if o.kind in ("timeout", "hard"):
                return Verdict(None, labels + ["hang-candidate"], nontrivial, key, discard="hang")
            if o.kind == "crash":
                site = run.panic_site(o.detail)
                kind = run.panic_kind(o.detail)
                if kind == "oom":
                    return Verdict(None, labels + ["oom"], nontrivial, key, discard="hang")
                return Verdict({"what": "crash %s at %s" % (kind, site), "site": site, "kind": kind,
                                "backend": o.backend, "status": o.status, "detail": o.detail[:1500]},
                               labels + ["crash"], nontrivial, key)
            bad = line_grammar_violations(o.out, fn)
            if bad:
                return Verdict({"what": "output line outside the grammar: %r" % bad[0][:200], "format": True,
                                "bad_line": bad[0][:300], "backend": o.backend}, labels + ["bad-line"], nontrivial, key)
            if o.out:
                labels.append("has-output")
            return Verdict(None, labels, nontrivial, key)
        finally:
            sb.remove(fn)

    def matchers(self):
        def site(case, v, params):
            return v.get("site") == params.get("site") and (not params.get("kind") or v.get("kind") == params["kind"])

        def fmt(case, v, params):
            return bool(v.get("format")) and re.search(params["pattern"], v.get("bad_line", "")) is not None
        return {"c01_site": site, "c01_format": fmt}
