"""C01 — the analyzer never crashes, whatever source it is given."""
import re

from hypothesis import strategies as st

from .. import corpus, mutate, out, run
from ..engine import Prop, Verdict


def line_grammar_violations(text, file):
    recs, bad = out.parse_lines(text, file)
    return bad


def classify_src(src):
    labels = []
    if not src.endswith("\n"):
        labels.append("no-final-newline")
    if "\x00" in src:
        labels.append("nul")
    if any(ord(c) > 127 for c in src):
        labels.append("non-ascii")
    return labels


class Check(Prop):
    ID = "C01"
    RULE = ("cases = (source bytes, flags in {none, -i}); enumerated: every line prefix (with/without final newline) of a "
            "fixed subset of the golden corpus; generated: token/line prefixes, 1-3 stacked token mutations with a hostile "
            "dictionary, concatenated hostile fragments, raw bytes and unicode text, complete grammar-generated programs with their prefixes and "
            "token mutants, cyclic hierarchies and value cycles, calls of every method of the shipped configuration with 15 fixed argument lists "
            "(enumerated) and with generated argument lists, on literal receivers and on parameters typed by a call site. Oracle: real analysis rounds finish "
            "without a Go panic/fatal error (exit 0, empty stderr on the real binary) and every stdout line matches "
            "<file>:::<row>:::msg or @<file>:::<row>:::... . Non-trivial = input not byte-identical to a corpus file and "
            ">= 5 tokens; distinct by SHA-1(input, flags).")
    ASSUMPTIONS = (
        "in-process server mirrors main()'s goroutine body; every candidate is re-run on the guard-off ti binary before it is reported",
        "a watchdog `timeout` is C02's concern and only counted here",
    )
    BUDGET = {"quick": 1800, "thorough": 40000}
    WALL = {"quick": 150, "thorough": 1500}
    QUICK_FILES = 60
    THOROUGH_FILES = 400

    def __init__(self, *a):
        Prop.__init__(self, *a)
        self.progs = corpus.plain(self.repo)
        self.texts = mutate.Texts(p.l1 for p in self.progs if len(p.l1) < 6000)
        self.corpus_set = set(p.l1 for p in self.progs)

    def explicit(self):
        nfiles = self.QUICK_FILES if self.tier == "quick" else self.THOROUGH_FILES
        small = [p for p in self.progs if p.l1.count("\n") <= 60]
        # fixed rule: every (len/nfiles)-th small file in name order
        step = max(1, len(small) // nfiles)
        chosen = small[::step][:nfiles]
        for p in chosen:
            for i, pre in enumerate(mutate.prefixes_of(p.l1)):
                yield {"src": pre, "flags": ["-i"] if i % 2 else [], "origin": "enum-prefix:" + p.name}
        # every method of the shipped configuration with 15 right and wrong argument lists (typed receiver, receiver typed through a
        # parameter, with and without block): the configured-call paths (conditional returns, overloads, block parameters)
        from .. import shipped
        for i, src in enumerate(shipped.enumerated_programs(self.repo, per_program=12 if self.tier == "quick" else 6)):
            yield {"src": src, "flags": ["-i"] if i % 3 == 0 else [], "origin": "shipped-calls"}
        if self.tier == "thorough":
            for p in self.progs:
                yield {"src": p.l1, "flags": [], "origin": "corpus:" + p.name}
                yield {"src": p.l1, "flags": ["-i"], "origin": "corpus:" + p.name}

    def strategy(self):
        texts = self.texts
        from .. import rb, shipped
        from .c02 import cyclic, value_cycles
        whole = rb.program(max_stmts=8, case_in=True, errors=0.15).map(lambda p: rb.render(p["tree"]))
        gen_texts = st.lists(whole, min_size=1, max_size=1).map(lambda xs: mutate.Texts(xs))
        src = st.one_of(
            mutate.prefix_of(texts),
            mutate.mutated(texts),
            mutate.mutated(texts),
            mutate.fragments(),
            mutate.raw_latin1(),
            mutate.raw_text(),
            whole,                                              # complete grammar-generated programs (valid and ill-typed)
            gen_texts.flatmap(mutate.prefix_of),               # what an editor sends while such a program is typed
            gen_texts.flatmap(mutate.mutated),                  # token mutants of generated programs
            cyclic(), value_cycles(),                           # cyclic hierarchies / value cycles (shared with C02)
            shipped.strategy(self.repo),                        # calls of shipped configured methods with arbitrary argument lists
        )
        return st.fixed_dictionaries({"src": src, "flags": st.sampled_from([[], ["-i"]])})

    def sample(self, case):
        return {"src": case["src"][:400], "flags": case["flags"], "origin": case.get("origin", "generated")}

    def evaluate(self, case, rt):
        src = case["src"]
        flags = case["flags"]
        o, fn = rt.run_src(src, flags, latin1=True, keep=True)
        sb = rt.sandbox()
        try:
            if o.kind == "dead":
                o = rt.runner.run(sb, fn, flags, force_blackbox=True)
            labels = classify_src(src)
            ntok = len(mutate.tokens(src))
            nontrivial = ntok >= 5 and src not in self.corpus_set
            key = run.sha(src, " ".join(flags))
            if o.kind in ("timeout", "hard"):
                return Verdict(None, labels + ["hang-candidate"], nontrivial, key, discard="hang")
            if o.kind == "crash":
                site = run.panic_site(o.detail)
                kind = run.panic_kind(o.detail)
                if kind == "oom":
                    return Verdict(None, labels + ["oom"], nontrivial, key, discard="hang")
                return Verdict({"what": "crash %s at %s" % (kind, site), "site": site, "kind": kind,
                                "backend": o.backend, "status": o.status, "detail": o.detail[:1500]},
                               labels + ["crash"], nontrivial, key)
            bad = line_grammar_violations(o.out, fn)
            if bad:
                return Verdict({"what": "output line outside the grammar: %r" % bad[0][:200], "format": True,
                                "bad_line": bad[0][:300], "backend": o.backend}, labels + ["bad-line"], nontrivial, key)
            if o.out:
                labels.append("has-output")
            return Verdict(None, labels, nontrivial, key)
        finally:
            sb.remove(fn)

    def matchers(self):
        def site(case, v, params):
            return v.get("site") == params.get("site") and (not params.get("kind") or v.get("kind") == params["kind"])

        def fmt(case, v, params):
            return bool(v.get("format")) and re.search(params["pattern"], v.get("bad_line", "")) is not None
        return {"c01_site": site, "c01_format": fmt}


def go_unquote(q):
    """Decode a Go double-quoted string literal into bytes."""
    assert q[0] == '"' and q[-1] == '"'
    out = bytearray()
    i = 1
    n = len(q) - 1
    simple = {"n": 10, "t": 9, "r": 13, "\\": 92, '"': 34, "'": 39, "a": 7, "b": 8, "f": 12, "v": 11, "0": 0}
    while i < n:
        c = q[i]
        if c != "\\":
            out += c.encode("utf8")
            i += 1
            continue
        e = q[i + 1]
        if e == "x":
            out.append(int(q[i + 2:i + 4], 16))
            i += 4
        elif e == "u":
            out += chr(int(q[i + 2:i + 6], 16)).encode("utf8")
            i += 6
        elif e == "U":
            out += chr(int(q[i + 2:i + 10], 16)).encode("utf8")
            i += 10
        elif e in "01234567" and i + 3 < n + 1 and q[i + 1:i + 4].isdigit():
            out.append(int(q[i + 1:i + 4], 8))
            i += 4
        else:
            out.append(simple.get(e, ord(e)))
            i += 2
    return bytes(out)


def extra_stage(repo, bins, tier, seed):
    """Coverage-guided stage (thorough only): native `go test -fuzz FuzzVerifAnalyze` on a scratch copy of the tree.

    The target resets all global state, analyses the input in-process through the mirrored rounds and fails on a panic or on
    exceeding its own watchdog. A crasher is decoded and handed back to the ordinary path (confirmation on the guard-off binary,
    known-finding matching). Native fuzzing cannot be pinned to a seed: the saved crasher is the reproducible unit."""
    import os
    import shutil
    import subprocess
    import tempfile
    from .. import build as buildmod
    from .. import run as runmod
    if tier != "thorough":
        return {"fuzz_seconds": 0, "note": "native fuzz stage runs in the thorough tier only"}, None
    secs = int(os.environ.get("VERIF_FUZZ_SECONDS", "300"))
    work = tempfile.mkdtemp(prefix="c01fuzz-", dir=runmod.tmp_root())
    try:
        dst = os.path.join(work, "tree")
        shutil.copytree(repo, dst, ignore=shutil.ignore_patterns(".git", "*.rb", "*_test.go", "image", "docs", "example", "skills"))
        shutil.copy(os.path.join(repo, "verif_hooks_test.go"), dst)
        shutil.copy(os.path.join(repo, "cmd", "rbs2json", "rbs_ast.rb"), os.path.join(dst, "cmd", "rbs2json", "rbs_ast.rb"))
        env = buildmod.go_env()
        env["TI_VERIF_CONFIG_DIR"] = os.path.join(repo, "test", ".ti-config")
        env["GOCACHE"] = os.environ.get("GOCACHE", os.path.expanduser("~/.cache/go-build"))
        # seed corpus: small valid programs from the golden suite plus hostile constants
        cdir = os.path.join(dst, "testdata", "fuzz", "FuzzVerifAnalyze")
        os.makedirs(cdir, exist_ok=True)
        from .. import corpus as corpusmod
        from .. import regress_inputs
        seeds = [p.data for p in corpusmod.plain(repo) if len(p.data) < 300][:80] + [x.encode("latin-1") for x in regress_inputs.CRASHERS + regress_inputs.HANGERS]
        for i, data in enumerate(seeds):
            q = '"' + "".join(chr(b) if 32 <= b < 127 and b not in (34, 92) else "\\x%02x" % b for b in data) + '"'
            with open(os.path.join(cdir, "seed%03d" % i), "w") as fh:
                fh.write("go test fuzz v1\n[]byte(%s)\nuint8(%d)\n" % (q, i % 5))
        r = subprocess.run(["go", "test", "-tags", "verif", "-run", "^$", "-fuzz", "^FuzzVerifAnalyze$", "-fuzztime", "%ds" % secs, "-parallel", "8", "."],
                           cwd=dst, env=env, stdout=subprocess.PIPE, stderr=subprocess.STDOUT, text=True)
        res = {"fuzz_seconds": secs}
        m = re.findall(r"execs: (\d+)", r.stdout)
        if m:
            res["fuzz_execs"] = int(m[-1])
        m = re.findall(r"new interesting: (\d+)", r.stdout)
        if m:
            res["fuzz_new_interesting"] = int(m[-1])
        if r.returncode == 0:
            return res, None
        # find the crasher written by the fuzzer
        crash = None
        for n in sorted(os.listdir(cdir)):
            if n.startswith("seed"):
                continue
            txt = open(os.path.join(cdir, n)).read()
            mm = re.search(r'\[\]byte\(("(?:[^"\\\\]|\\\\.)*")\)\s*\n\s*(?:uint8|byte)\((.*?)\)', txt)
            if mm:
                try:
                    data = go_unquote(mm.group(1))
                    mv = mm.group(2)
                    mode = int(mv) if mv.isdigit() else (ord(go_unquote('"' + mv.strip("'") + '"').decode("latin-1")[:1] or "\0"))
                except Exception:
                    continue
                flags = {0: [], 1: ["-i"]}.get(mode % 5, [])
                crash = {"src": data.decode("latin-1"), "flags": flags, "origin": "native-fuzz"}
                break
        if crash is not None:
            return res, {"case": crash, "violation": {"what": "native fuzz crasher: " + r.stdout[-600:], "site": "unknown", "kind": "other"}, "shrunk": True}
        if "FAIL" in r.stdout and ("panic" in r.stdout or "Failing input" in r.stdout):
            return res, {"infra": "fuzz stage failed but no crasher could be decoded:\n" + r.stdout[-1500:]}
        return res, {"infra": "fuzz stage could not run:\n" + r.stdout[-1500:]}
    finally:
        shutil.rmtree(work, ignore_errors=True)
