"""C08 — no false alarms on calls the configuration certainly accepts."""
from .. import callprog
from . import c07


class Check(c07.Check):
    ID = "C08"
    RULE = ("cases = the generated configurations and call programs of C07. Oracle: the independent call model marks a call MUST_OK when "
            "every possible receiver class declares or inherits the method and some declaration accepts the positional count, has all "
            "required keywords, knows every passed keyword and accepts every possible class of every argument (a union argument counts "
            "when all its variants are accepted; Untyped accepts everything); every MUST_OK call line that precedes the first line whose "
            "verdict is not MUST_OK must carry no diagnostic. Non-trivial = MUST_OK probe with >= 1 argument where the argument or the "
            "parameter is a union, or the binding uses default/rest/keyword/overload/inheritance/union receiver; distinct by shape.")

    def strategy(self):
        from hypothesis import strategies as st
        return st.one_of(callprog.call_program(valid=True), callprog.call_program(valid=True), callprog.call_program())

    def judge(self, case, recs, vs):
        labels = []
        keyparts = []
        viol = None
        nontrivial = False
        for p, v, why, app in vs:
            labels.append(v)
            if v != "MUST_OK":
                break       # only lines before the first definite error / don't-care line are asserted (recovery effects)
            feats = []
            if any(len(s) > 1 for s in p["pos"]) or any(len(s) > 1 for s in p["kws"].values()):
                feats.append("union-arg")
            if len(p["R"]) > 1:
                feats.append("union-recv")
            for c, oks in app:
                for d in oks:
                    if any(len(a["types"]) > 1 for a in d["args"]):
                        feats.append("union-param")
                    if any(a["default"] for a in d["args"]):
                        feats.append("default")
                    if any(a["rest"] for a in d["args"]):
                        feats.append("rest")
                    if any(a["key"] for a in d["args"]):
                        feats.append("keyword")
            model_decls = [d for c in p["R"] for d in self._decls(case, c, p)]
            if len(model_decls) > len(p["R"]):
                feats.append("overload")
            if (p["pos"] or p["kws"]) and feats:
                nontrivial = True
            for f in sorted(set(feats)):
                labels.append("feat:" + f)
            keyparts.append("%s:%s:%d" % (sorted(set(feats)), sorted(len(s) for s in p["pos"]), len(p["kws"])))
            diags = [t for k, r, t in recs if k == "E" and r == p["row"]]
            if diags and viol is None:
                viol = {"what": "certainly accepted call reported on row %d: %s.%s(pos=%s, kws=%s): %s" % (p["row"], p["R"], p["m"], p["pos"], p["kws"], diags[0][:200]),
                        "reason": "false-alarm", "probe": p, "diagnostics": diags[:3], "features": sorted(set(feats))}
        return viol, labels, nontrivial, keyparts

    @staticmethod
    def _decls(case, c, p):
        from .. import cfg as cfgmod
        return cfgmod.Model(case["cfg"]).decls(c, p["m"], p.get("static", False))
