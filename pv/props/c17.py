"""C17 — block parameters get declared types and block locals stay local."""
import glob
import json
import os

from hypothesis import strategies as st

from .. import meta, out as outmod, run
from ..engine import Prop, Verdict

RECV = {"Array": [("[1, 2]", ["Integer"]), ('[1, "s"]', ["Integer", "String"]), ('["a"]', ["String"])],
        "Hash": [('{a: 1, b: "s"}', ["Integer", "String"])], "Range": [("(1..3)", ["Integer"])], "String": [('"abc"', None)], "Integer": [("3", None)]}
PR = {"Int": "Integer", "String": "String", "Float": "Float", "Symbol": "Symbol", "Bool": "Bool", "NilClass": "NilClass", "Untyped": "untyped", "Bq": "Bq"}
OUTER = [(":sym", "Symbol"), ("1.5", "Float"), ('"outer"', "String")]


def block_methods(repo):
    cfg = os.path.join(repo, "test", ".ti-config")
    ext, meths = {}, {}
    for f in sorted(glob.glob(cfg + "/*.json")):
        d = json.load(open(f))
        if d.get("frame") != "Builtin":
            continue
        ext[d["class"]] = d.get("extends") or []
        for m in d.get("instance_methods") or []:
            if m.get("block_parameters"):
                meths.setdefault(d["class"], []).append(m)

    def all_meths(c, seen=()):
        out = list(meths.get(c, []))
        for p in ext.get(c, []):
            if p not in seen:
                out += all_meths(p, seen + (c,))
        return out
    res = []
    for c in RECV:
        for m in all_meths(c):
            args = m.get("arguments") or []
            req = 0
            kinds = []
            for a in args:
                ts0 = a["type"] if isinstance(a.get("type"), list) else [a.get("type")]
                t0 = str(ts0[0])
                dflt = bool(a.get("is_default")) or t0.startswith(("Default", "?"))
                base_t = t0[len("Default"):] if t0.startswith("Default") else t0.lstrip("?")
                if not a.get("is_asterisk") and not t0.startswith(("Block", "*")):
                    kinds.append([base_t, dflt])
            for a in args:
                ts = a["type"] if isinstance(a.get("type"), list) else [a.get("type")]
                if a.get("is_default") or a.get("is_asterisk") or any(str(t).startswith(("Default", "?", "Block", "Optional", "*")) for t in ts):
                    continue
                req += 1
            res.append({"cls": c, "name": m["name"], "bps": m["block_parameters"], "req": req, "kinds": kinds})
    return res


class Check(Prop):
    ID = "C17"
    RULE = ("cases = a block call (required arguments as literals or as expressions containing a method call) on a literal-built receiver (arrays of one or two element types, hash, range, string, integer) of every "
            "shipped method that declares block_parameters (incl. inherited Enumerable methods), with 0-3+ block parameters (declared "
            "count minus one up to plus two), do/end or braces, a parameter that shadows an outer variable, a variable first assigned "
            "inside the block, optionally nested inside another block and optionally containing a nested block with 0-3 parameters of its own; a third of the generated cases use a generated configured class Bq whose method declares 1-4 random block_parameters (Int/String/Float/Symbol/Bool/NilClass/Untyped/Bq). Oracle (model of docs/ti-config.md): inside the block parameter i "
            "has the declared type (Int/String/Float/Symbol/Bool/NilClass/Untyped as is, Unify = the receiver's element types; Item, "
            "Flatten, UnifyArgument are not modelled - only scoping is asserted for them), surplus parameters are NilClass; after the "
            "block the shadowed outer variable has its previous type and the block-local variable is not visible (Unknown). "
            "Non-trivial = >= 1 modelled parameter type or a shadow/locality assertion; enumerated part = every (receiver, method) pair "
            "in both block forms.")
    ASSUMPTIONS = (
        "crashing/hanging runs are discarded here and counted",
        "violations seen through the in-process server are re-evaluated on the guard-off binary before being reported",
    )
    BUDGET = {"quick": 1500, "thorough": 20000}
    WALL = {"quick": 150, "thorough": 1500}

    def __init__(self, *a):
        Prop.__init__(self, *a)
        self.meths = block_methods(self.repo)

    def explicit(self):
        for m in self.meths:
            for lit, elem in RECV[m["cls"]]:
                for brace in (False, True):
                    yield {"m": m, "recv": lit, "elem": elem, "nparams": len(m["bps"]) + 1, "brace": brace, "shadow": 0, "outer": 0, "nest": False}
                    if m.get("kinds"):
                        yield {"m": m, "recv": lit, "elem": elem, "nparams": len(m["bps"]) + 1, "brace": brace, "shadow": 0, "outer": 0, "nest": False,
                               "argform": 1 + (len(m["name"]) + brace) % 3}

    def gen_strategy(self):
        """Generated configured class with random block_parameters (modelled kinds only)."""
        kinds = ["Int", "String", "Float", "Symbol", "Bool", "NilClass", "Untyped", "Bq"]

        @st.composite
        def case(draw):
            bps = draw(st.lists(st.sampled_from(kinds), min_size=1, max_size=4))
            nargs = draw(st.integers(0, 2))
            n = max(0, len(bps) + draw(st.integers(-1, 2)))
            m = {"cls": "Bq", "name": "bm", "bps": bps, "req": nargs}
            return {"m": m, "recv": "Bq.new", "elem": None, "nparams": n, "brace": draw(st.booleans()), "shadow": draw(st.integers(0, max(0, n))),
                    "outer": draw(st.integers(0, len(OUTER) - 1)), "nest": draw(st.integers(0, 3)) == 0, "gen": True, "inner_block": draw(st.sampled_from([0, 0, 1, 2, 3])),
                    "argform": draw(st.sampled_from([0, 0, 1, 2, 3]))}
        return case()

    def strategy(self):
        return st.one_of(self.shipped_strategy(), self.shipped_strategy(), self.gen_strategy())

    def shipped_strategy(self):
        meths = self.meths

        @st.composite
        def case(draw):
            m = meths[draw(st.integers(0, len(meths) - 1))]
            lit, elem = RECV[m["cls"]][draw(st.integers(0, len(RECV[m["cls"]]) - 1))]
            n = max(0, len(m["bps"]) + draw(st.integers(-1, 2)))
            return {"m": m, "recv": lit, "elem": elem, "nparams": n, "brace": draw(st.booleans()), "shadow": draw(st.integers(0, max(0, n))),
                    "outer": draw(st.integers(0, len(OUTER) - 1)), "nest": draw(st.integers(0, 3)) == 0, "inner_block": draw(st.sampled_from([0, 0, 1, 2, 3, 4])),
                    "argform": draw(st.sampled_from([0, 0, 1, 2, 3]))}
        return case()

    def sample(self, case):
        return {"program": self.render(case)[0]}

    @staticmethod
    def render(case):
        m = case["m"]
        n = case["nparams"]
        ps = ["bp%d" % i for i in range(n)]
        sh = case.get("shadow", 0)
        if sh and sh <= n:
            ps[sh - 1] = "outer"      # this parameter shadows the outer variable
        oexpr, otype = OUTER[case.get("outer", 0)]
        # argument forms: a literal, or an expression that itself contains a method call (the block belongs to the outer call)
        af = case.get("argform", 0) % 4
        forms = {"Int": ["1", "cnt.length", "nn - 1", '"ab".length'], "Untyped": ["1", "cnt.length", "nn - 1", '"ab".length'],
                 "Hash": ["{c: 1}", "hh.merge({d: 2})", "hh.merge({d: 2})", "{c: 1}"], "String": ['"s"', "ss.upcase", "ss + ss", '"s"']}
        alist = []
        for kind, dflt in (m.get("kinds") or [["Int", False]] * m["req"]):
            if dflt and af % 2 == 0:
                break                      # defaulted arguments are passed by the odd argument forms only
            alist.append(forms.get(kind, ["1"] * 4)[af])
        args = "(%s)" % ", ".join(alist) if alist else ""
        lines = ["outer = %s" % oexpr, "r = %s" % case["recv"]]
        if af and alist:
            lines += ["cnt = [1, 2]", "nn = 2", "hh = {c: 1}", 'ss = "t"']
        exp = []
        ind = ""
        if case.get("nest"):
            lines.append("[7].each do |nestp|")
            ind = "  "
        head = "%sr.%s%s %s%s" % (ind, m["name"], args, "{" if case["brace"] else "do", (" |%s|" % ", ".join(ps)) if ps else "")
        lines.append(head)
        for i, p in enumerate(ps):
            lines.append("%s  dbtp %s" % (ind, p))
            if i < len(m["bps"]):
                bp = m["bps"][i]
                if bp == "Unify" and case["elem"]:
                    exp.append([len(lines), sorted(case["elem"]), "param:Unify"])
                elif bp in PR:
                    exp.append([len(lines), [PR[bp]], "param:" + bp])
            else:
                exp.append([len(lines), ["NilClass"], "surplus"])
        ib = case.get("inner_block", 0)
        if ib:
            # a block nested in the body, with its own parameters (0-3): its scope handling must not disturb the enclosing block's
            ips = ["ip%d" % i for i in range(ib - 1)]
            lines.append("%s  [9].each_with_index do%s" % (ind, (" |%s|" % ", ".join(ips)) if ips else ""))
            lines.append("%s    inner2 = 1" % ind)
            lines.append("%s  end" % ind)
            for i, p in enumerate(ps):
                if i < len(m["bps"]) and (m["bps"][i] in PR or (m["bps"][i] == "Unify" and case["elem"])):
                    lines.append("%s  dbtp %s" % (ind, p))
                    exp.append([len(lines), sorted(case["elem"]) if m["bps"][i] == "Unify" else [PR[m["bps"][i]]], "param-after-inner-block"])
        lines.append("%s  inner = 2.5" % ind)
        lines.append("%s  dbtp inner" % ind)
        exp.append([len(lines), ["Float"], "inner-inside"])
        lines.append("%s%s" % (ind, "}" if case["brace"] else "end"))
        lines.append("%sdbtp outer" % ind)
        exp.append([len(lines), [otype], "outer-restored" + ("-shadowed" if "outer" in ps else "")])
        lines.append("%sdbtp inner" % ind)
        exp.append([len(lines), ["Unknown"], "inner-invisible"])
        if case.get("nest"):
            lines.append("end")
            lines.append("dbtp outer")
            exp.append([len(lines), [otype], "outer-after-nest"])
        return "\n".join(lines) + "\n", exp

    def evaluate(self, case, rt):
        src, exp = self.render(case)
        key = run.sha(src)
        m = case["m"]
        labels = ["recv:" + m["cls"], "brace" if case["brace"] else "do-end", "nparams:%d" % case["nparams"]] + (["nested"] if case.get("nest") else [])
        config = "shipped"
        if case.get("gen"):
            labels.append("generated-config")
            if not hasattr(self, "_shipped_files"):
                from .c14 import shipped_config
                self._shipped_files = shipped_config(self.repo)
            config = dict(self._shipped_files)
            config["zz_bq.json"] = json.dumps({"frame": "Builtin", "class": "Bq", "instance_methods": [
                {"name": "bm", "arguments": [{"type": ["Int"]} for _ in range(m["req"])], "return_type": {"type": ["Self"]}, "block_parameters": m["bps"]}],
                "class_methods": [{"name": "new", "arguments": [], "return_type": {"type": ["Bq"]}}]})
        try:
            recs = meta.analyse(rt, src, [], config=config)
        except meta.Discard as d:
            return meta.discard_verdict(d, labels, key)
        by_row = {}
        for k, r, t in recs:
            by_row.setdefault(r, []).append(t)
        nontrivial = bool(exp)
        for row, want, tag in exp:
            labels.append(tag)
            got = by_row.get(row, ["<none>"])[-1]
            try:
                g = outmod.parse_type(got)
            except outmod.TypeParseError:
                g = frozenset([got])
            if g != frozenset(want):
                return Verdict({"what": "%s#%s: row %d (%s) expected %s, ti reports %s" % (m["cls"], m["name"], row, tag, want, got), "tag": tag,
                                "method": m["cls"] + "#" + m["name"], "bps": m["bps"], "program": meta.with_rows(src)}, labels + ["mismatch"], nontrivial, key)
        return Verdict(None, labels, nontrivial, key)

    def matchers(self):
        def m_tag(case, v, params):
            import re
            if params.get("method") and v.get("method") != params["method"]:
                return False
            return re.fullmatch(params["tag_pattern"], v.get("tag") or "") is not None
        return {"c17_tag": m_tag}
