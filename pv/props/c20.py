"""C20 — declarations for classes a program never mentions do not affect it."""
import json
import re

from hypothesis import strategies as st

from .. import corpus, meta, rb, run
from ..engine import Prop, Verdict
from .c14 import shipped_config

FRAMES = ["Builtin", "Builtin::Zext", "Zframe", "ActiveRecord", "Builtin::GPIO", "Zdeep::Zinner"]
FRESH = ["Zalpha", "Zbeta", "Zgamma", "Zdelta", "Zomega"]
METHS = ["zm1", "zm2", "run", "size", "each", "new", "to_s", "name", "call", "first"]
TYPES = ["Int", "String", "Float", "Symbol", "Bool", "NilClass", "Untyped", "Self"]


def tokens_of(text):
    return set(re.findall(r"[A-Za-z_]\w*", text))


@st.composite
def class_ref_program(draw):
    """User classes (some with names without a lower-case letter) that are named as bare tokens in many positions: default
    values (also of the class being defined or of one defined further down), is_a?, case/in, assignments, arrays."""
    names = draw(st.lists(st.sampled_from(["A", "K9", "IO", "Node", "Leafy", "Qx", "B"]), min_size=1, max_size=3, unique=True))
    lines = []
    for i, n in enumerate(names):
        other = names[draw(st.integers(0, len(names) - 1))]
        lines += ["class %s" % n, "  def initialize(v = 0)", "    @v = v", "  end"]
        for k in range(draw(st.integers(1, 3))):
            form = draw(st.sampled_from(["default-new", "default-class", "kw-default", "is_a", "plain", "array"]))
            m = "%s_m%d" % (n.lower(), k)
            if form == "default-new":
                lines += ["  def %s(other = %s.new)" % (m, other), "    other", "  end"]
            elif form == "default-class":
                lines += ["  def %s(kind = %s)" % (m, other), "    kind.new", "  end"]
            elif form == "kw-default":
                lines += ["  def %s(k: %s.new(1))" % (m, other), "    k", "  end"]
            elif form == "is_a":
                lines += ["  def %s(x)" % m, "    if x.is_a?(%s)" % other, "      1", "    else", "      \"s\"", "    end", "  end"]
            elif form == "array":
                lines += ["  def %s" % m, "    [%s.new, %s]" % (other, other), "  end"]
            else:
                lines += ["  def %s" % m, "    @v", "  end"]
            lines.append("__CALL__ %s %s %s" % (n, m, form))
        lines.append("end")
    out, calls = [], []
    for l in lines:
        if l.startswith("__CALL__"):
            _, n, m, form = l.split()
            calls.append((n, m, form))
        else:
            out.append(l)
    for n in names:
        out.append("o_%s = %s.new" % (n.lower(), n))
    for n, m, form in calls:
        arg = "(1)" if form == "is_a" else ""
        out.append("dbtp o_%s.%s%s" % (n.lower(), m, arg))
    return "\n".join(out) + "\n"


class Check(Prop):
    ID = "C20"
    RULE = ("cases = (program, 1-3 extra configuration files appended to the shipped configuration, loaded first or last). Programs: "
            "golden corpus programs, grammar-generated programs (user classes, methods, blocks, conditionals) and programs that name their own classes (some without a lower-case letter: A, K9, IO) as bare tokens in default values, is_a?, arrays. Extra classes have fresh "
            "names the program never mentions, or - the stated special case - the short name of a class the program itself defines but "
            "in a different frame (Zframe::Name, Builtin::Zext::Name, ActiveRecord::Name); they declare instance/class methods (also with "
            "names the program uses, e.g. new/size/each) and optional extends. Oracle: identical `ti -i` output (plain sampled) with and "
            "without the extras. Precondition: no token of the program equals an added class name, except in the special case. "
            "Non-trivial = the program's output is non-empty and defines or uses a class; distinct by SHA-1.")
    ASSUMPTIONS = (
        "crashing/hanging runs are discarded here and counted",
        "violations seen through the in-process server are re-evaluated on the guard-off binary before being reported",
    )
    BUDGET = {"quick": 1000, "thorough": 15000}
    WALL = {"quick": 150, "thorough": 1500}

    def __init__(self, *a):
        Prop.__init__(self, *a)
        self.shipped = shipped_config(self.repo)
        self.progs = [p for p in corpus.plain(self.repo) if len(p.text) < 3000]

    def strategy(self):
        progs = self.progs

        @st.composite
        def extra(draw, user_classes, force_collide=False):
            collide = bool(user_classes) and draw(st.integers(0, 2 if not force_collide else 0)) == 0
            if collide:
                name = user_classes[draw(st.integers(0, len(user_classes) - 1))]
                frame = draw(st.sampled_from([f for f in FRAMES if f != "Builtin"]))
            else:
                name = draw(st.sampled_from(FRESH))
                frame = draw(st.sampled_from(FRAMES))

            def meth():
                return {"name": draw(st.sampled_from(METHS)),
                        "arguments": [{"type": [draw(st.sampled_from(TYPES[:7]))]} for _ in range(draw(st.integers(0, 2)))],
                        "return_type": {"type": [draw(st.sampled_from(TYPES))]}}
            d = {"frame": frame, "class": name, "instance_methods": [meth() for _ in range(draw(st.integers(0, 3)))],
                 "class_methods": [meth() for _ in range(draw(st.integers(0, 2)))]}
            if draw(st.integers(0, 3)) == 0:
                d["extends"] = [draw(st.sampled_from(["Zalpha", "Enumerable", "Parent"]))]
            return {"def": d, "collide": collide, "first": draw(st.booleans())}

        @st.composite
        def case(draw):
            k = draw(st.integers(0, 3))
            if k == 3:
                src, origin = draw(class_ref_program()), "class-refs"
            elif k == 0:
                p = progs[draw(st.integers(0, len(progs) - 1))]
                src, origin = p.text, "corpus:" + p.name
            else:
                src, origin = rb.render(draw(rb.program(max_stmts=9))["tree"]), "generated"
            user_classes = sorted(set(re.findall(r"(?m)^\s*class\s+([A-Z]\w*)", src)))
            extras = [draw(extra(user_classes, force_collide=(origin == "class-refs" and j == 0))) for j in range(draw(st.integers(1, 3)))]
            return {"src": src, "extras": extras, "origin": origin}
        return case()

    def sample(self, case):
        return {"src": case["src"][:400], "extras": [(e["def"]["frame"], e["def"]["class"], e["collide"]) for e in case["extras"]]}

    def evaluate(self, case, rt):
        src = case["src"]
        key = run.sha(src, json.dumps(case["extras"], sort_keys=True))
        origin = case.get("origin", "generated").split(":")[0]
        labels = [origin]
        toks = tokens_of(src)
        user_classes = set(re.findall(r"(?m)^\s*class\s+([A-Z]\w*)", src))
        files = dict(self.shipped)
        seen = set()
        for i, e in enumerate(case["extras"]):
            d = e["def"]
            name = d["class"]
            fk = (d["frame"], name)
            if fk in seen:
                continue
            seen.add(fk)
            if name in toks and not (e["collide"] and name in user_classes and d["frame"] != "Builtin"):
                return Verdict(None, labels + ["precondition"], False, key, discard="precondition")
            if any(x in toks for x in d.get("extends", []) if x.startswith("Z")):
                return Verdict(None, labels + ["precondition"], False, key, discard="precondition")
            labels.append("collide" if e["collide"] else "fresh")
            labels.append("frame:" + d["frame"])
            files[("000_x%d.json" if e["first"] else "zzz_x%d.json") % i] = json.dumps(d, indent=1)
        flags = ["-i"] if int(key[:2], 16) % 4 else []
        try:
            a = meta.analyse(rt, src, flags)
            b = meta.analyse(rt, src, flags, config=files)
        except meta.Discard as d:
            return meta.discard_verdict(d, labels, key)
        nontrivial = bool(a) and bool(re.search(r"\bclass\b|\.new\b", src))
        if sorted(a) == sorted(b):
            return Verdict(None, labels, nontrivial, key)
        df = meta.diff(a, b)
        return Verdict({"what": "extra unmentioned classes %s change the output: %s" % ([(e["def"]["frame"], e["def"]["class"]) for e in case["extras"]], df),
                        "diff": df, "flags": flags, "extras": [e["def"] for e in case["extras"]]}, labels + ["mismatch"], nontrivial, key)

    def matchers(self):
        def m_collide(case, v, params):
            """Finding keyed by shape: an extra class in a foreign frame reuses the short name of a class the program defines."""
            user_classes = set(re.findall(r"(?m)^\s*class\s+([A-Z]\w*)", case["src"]))
            return any(e["collide"] and e["def"]["class"] in user_classes for e in case["extras"])
        return {"c20_short_name_collision": m_collide}
