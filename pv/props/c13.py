"""C13 — consistently renaming user identifiers changes nothing but the names."""
import collections
import glob
import json
import os
import re

from hypothesis import strategies as st

from .. import corpus, meta, rb, run
from ..engine import Prop, Verdict

KW = set("alias and begin break case class def defined? do else elsif end ensure false for if in module next nil not or redo rescue retry "
         "return self super then true undef unless until when while yield p puts print dbtp dbp private public protected include extend "
         "attr_accessor attr_reader attr_writer raise loop lambda proc require new initialize __method__ BEGIN END".split())

# fresh-name pools (lexical category preserved)
EDGE_LOWER = ["q", "z", "_", "_x", "_9", "k9", "zz", "x1", "a_b", "v0_0", "e", "n", "qq_", "long_identifier_name_x", "s2s", "i"]
HOSTILE_LOWER = ["union", "array", "hash", "block", "range", "bool", "tmp", "var3", "unknown", "untyped", "object", "kernel", "identifier",
                 "string", "integer", "float", "symbol", "nilclass", "optional", "default", "unify", "argument", "item", "flatten", "self_",
                 "builtin", "frame", "klass", "method_", "args", "key", "value", "keyvalue", "proc_", "lambda_", "const", "static", "instance", "ti"]
EDGE_UPPER = ["Q", "Zz", "K9", "Ab", "Xy_z", "LongClassNameForTesting", "A1", "Qq"]
HOSTILE_UPPER = ["Union", "Unknown", "Untyped", "Optional", "Default", "Unify", "Item", "Flatten", "Identifier9", "Builtinx", "Blockk", "Selfy", "Nilx", "IO", "URL", "ABC"]

TOK = re.compile(r'"(?:\\.|[^"\\])*"|\'(?:\\.|[^\'\\])*\'|#[^\n]*|[A-Za-z_@$][A-Za-z0-9_]*[?!]?|\s+|.', re.S)


def config_names(repo):
    names = set()
    for f in glob.glob(os.path.join(repo, "test", ".ti-config", "*.json")):
        try:
            d = json.load(open(f))
        except Exception:
            continue
        for c in (d if isinstance(d, list) else [d]):
            names.add(c.get("class", ""))
            for k in ("instance_methods", "class_methods", "constants"):
                for m in c.get(k) or []:
                    names.add(m.get("name", ""))
    return names


def corpus_locals(src, cfg):
    """Conservative: names that are assigned at statement level, never used after . : @ $ & or `def`, never before `:` or `(`."""
    toks = TOK.findall(src)
    cand = collections.Counter()
    bad = set()
    for i, t in enumerate(toks):
        if re.fullmatch(r"[a-z_][a-z0-9_]*", t):
            prev = toks[i - 1] if i else ""
            pprev = "".join(toks[max(0, i - 2):i])
            nxt = toks[i + 1] if i + 1 < len(toks) else ""
            if prev in (".", ":", "@", "$", "&", "*") or pprev.endswith("&.") or nxt == ":" or nxt == "(" or re.search(r"def\s*$", pprev) \
                    or re.search(r"(def\s+self\.|::)$", "".join(toks[max(0, i - 4):i])):
                bad.add(t)
            cand[t] += 1
    assigned = set(m.group(1) for m in re.finditer(r"(?m)^\s*([a-z_][a-z0-9_]*)\s*=[^=~>]", src))
    return [v for v in sorted(assigned) if v not in bad and v not in KW and v not in cfg and cand[v] >= 2], toks


def ident_sub(text, old, new):
    # an instance variable and its attr_reader/accessor share one name: `@name` is renamed together with `name`
    return re.sub(r"(?<![A-Za-z0-9_$@])(@?)%s(?![A-Za-z0-9_])" % re.escape(old), lambda m: m.group(1) + new, text)


class Check(Prop):
    ID = "C13"
    RULE = ("cases = (program, identifier, fresh name). Generated programs: every local, block/method parameter, user method, class and "
            "module introduced by the generator is renameable (all occurrences are whole-word tokens, unique in the program); corpus "
            "programs: locals selected by a conservative token filter. Fresh names keep the lexical category and come from three pools: "
            "random, edge shapes (one character, `_`, trailing digits, all-caps/one-letter class names) and hostile words harvested from "
            "ti's own string constants (union, array, hash, block, ...). Preconditions: fresh name is no keyword/configured name and does "
            "not occur in the program or its output. Oracle: `ti -i` output (plain sampled) of the renamed program, with fresh->old "
            "substituted at identifier boundaries, equals the original output line for line. Non-trivial = output non-empty and the "
            "renamed entity occurs >= 2 times; distinct by SHA-1.")
    ASSUMPTIONS = (
        "crashing/hanging runs are discarded here and counted",
        "violations seen through the in-process server are re-evaluated on the guard-off binary before being reported",
    )
    BUDGET = {"quick": 2400, "thorough": 40000}
    WALL = {"quick": 150, "thorough": 1500}

    def __init__(self, *a):
        Prop.__init__(self, *a)
        self.cfg = config_names(self.repo)
        self.progs = [p for p in corpus.plain(self.repo) if len(p.text) < 5000 and "\r" not in p.text and not ("<<" in p.text and "EOS" in p.text)]
        self.cl = None

    def _corpus_locals(self):
        if self.cl is None:
            self.cl = []
            for i, p in enumerate(self.progs):
                vs, _ = corpus_locals(p.text, self.cfg)
                if vs:
                    self.cl.append((i, vs))
        return self.cl

    def explicit(self):
        n = 30 if self.tier == "quick" else 250
        cl = self._corpus_locals()
        step = max(1, len(cl) // n)
        pool = EDGE_LOWER + HOSTILE_LOWER
        for j, (i, vs) in enumerate(cl[::step][:n]):
            p = self.progs[i]
            yield {"src": p.text, "old": vs[j % len(vs)], "new": pool[j % len(pool)], "kind": "local", "origin": "corpus:" + p.name}
            yield {"src": p.text, "old": vs[0], "new": pool[(j * 7 + 3) % len(pool)], "kind": "local", "origin": "corpus:" + p.name}

    def strategy(self):
        cl = self._corpus_locals()
        progs = self.progs
        rand_lower = st.from_regex(r"[a-z_][a-z0-9_]{0,13}", fullmatch=True)
        rand_upper = st.from_regex(r"[A-Z][A-Za-z0-9_]{0,13}", fullmatch=True)
        # names on the edge of the lexical class: leading underscores are still locals
        under = st.sampled_from(["_", "_x", "_first", "_9", "__", "_a1", "_Q", "x_", "_s"])
        lower = st.one_of(rand_lower, st.sampled_from(EDGE_LOWER), st.sampled_from(HOSTILE_LOWER), st.sampled_from(list("abeinqtxz_")), under)
        upper = st.one_of(rand_upper, st.sampled_from(EDGE_UPPER), st.sampled_from(HOSTILE_UPPER))

        @st.composite
        def gen_case(draw):
            p = draw(rb.program(max_stmts=8, case_in=True))
            names = p["names"]
            kinds = [k for k in names if names[k] and k not in ("writer", "pattern")]
            if names.get("pattern") and draw(st.integers(0, 3)) == 0:
                # variables bound by a case/in pattern go through identifier classification of their own
                old = names["pattern"][draw(st.integers(0, len(names["pattern"]) - 1))]
                # a name made of underscores only is the wildcard pattern, not a variable: not a consistent renaming of a bound name
                new = draw(st.one_of(lower, under).filter(lambda n: n.strip("_") != ""))
                return {"src": rb.render(p["tree"]), "old": old, "new": new, "kind": "local"}
            if names.get("writer") and draw(st.integers(0, 2)) == 0:
                # hand-written attribute writers (def name=(v)) are name-shape sensitive: rename them often
                old = names["writer"][draw(st.integers(0, len(names["writer"]) - 1))]
                return {"src": rb.render(p["tree"]), "old": old, "new": draw(lower), "kind": "method"}
            if not kinds:
                return {"src": rb.render(p["tree"]), "old": "", "new": "x", "kind": "local"}
            kind = kinds[draw(st.integers(0, len(kinds) - 1))]
            old = names[kind][draw(st.integers(0, len(names[kind]) - 1))]
            if old in (names.get("pattern") or []):
                new = draw(lower.filter(lambda n: n.strip("_") != ""))
                return {"src": rb.render(p["tree"]), "old": old, "new": new, "kind": kind}
            if kind == "const":
                new = draw(st.from_regex(r"[A-Z][A-Z0-9_]{1,10}", fullmatch=True))
            else:
                new = draw(upper if kind in ("class", "module") else lower)
            return {"src": rb.render(p["tree"]), "old": old, "new": new, "kind": kind}

        @st.composite
        def corpus_case(draw):
            i, vs = cl[draw(st.integers(0, len(cl) - 1))]
            p = progs[i]
            return {"src": p.text, "old": vs[draw(st.integers(0, len(vs) - 1))], "new": draw(lower), "kind": "local", "origin": "corpus:" + p.name}

        return st.one_of(gen_case(), gen_case(), corpus_case())

    def sample(self, case):
        return {"src": case["src"][:400], "old": case["old"], "new": case["new"], "kind": case["kind"], "origin": case.get("origin", "generated")}

    def evaluate(self, case, rt):
        src, old, new, kind = case["src"], case["old"], case["new"], case["kind"]
        key = run.sha(src, old, new)
        origin = case.get("origin", "generated").split(":")[0]
        pool = ("hostile" if new in HOSTILE_LOWER or new in HOSTILE_UPPER else "edge" if new in EDGE_LOWER or new in EDGE_UPPER else "random")
        labels = [origin, "kind:" + kind, "pool:" + pool, "len:%s" % (len(new) if len(new) < 3 else "3+")]
        if (not old or new in KW or new in self.cfg or new.rstrip("?!") in KW or re.search(r"(?<![A-Za-z0-9_])%s(?![A-Za-z0-9_])" % re.escape(new), src)
                or new == old or new.endswith("_") and False):
            return Verdict(None, labels + ["precondition"], False, key, discard="precondition")
        if kind in ("class", "module", "const") and not re.match(r"[A-Z]", new):
            return Verdict(None, labels + ["precondition"], False, key, discard="precondition")
        src2 = ident_sub(src, old, new)
        occ = len(re.findall(r"(?<![A-Za-z0-9_@$])%s(?![A-Za-z0-9_])" % re.escape(old), src))
        flags = ["-i"] if int(key[:2], 16) % 4 else []
        try:
            base = meta.analyse(rt, src, flags)
            if any(re.search(r"(?<![A-Za-z0-9_])%s(?![A-Za-z0-9_])" % re.escape(new), t) for k, r, t in base):
                return Verdict(None, labels + ["precondition"], False, key, discard="precondition")
            got = meta.analyse(rt, src2, flags)
        except meta.Discard as d:
            return meta.discard_verdict(d, labels, key)
        back = [(k, r, ident_sub(t, new, old)) for k, r, t in got]
        nontrivial = bool(base) and occ >= 2
        if meta.same(base, back):
            return Verdict(None, labels, nontrivial, key)
        d = meta.diff(base, back)
        return Verdict({"what": "renaming %s %s -> %s changed the analysis: %s" % (kind, old, new, d), "diff": d, "flags": flags, "old": old, "new": new,
                        "kind": kind, "renamed_src": src2[:3000]}, labels + ["mismatch"], nontrivial, key)

    def matchers(self):
        def m_name(case, v, params):
            if params.get("kind") and case["kind"] not in params["kind"]:
                return False
            return re.fullmatch(params["new_pattern"], case["new"]) is not None
        return {"c13_fresh_name": m_name}
