"""C06 — layout changes only shift reported rows."""
import re

from hypothesis import strategies as st

from .. import corpus, meta, rb, run
from ..engine import Prop, Verdict

COMMENTS = ["# note", "#", "# x = 1", "#!", "# def end class", "   # indented", "# \"quote"]


# bodies of =begin/=end block comments (0-3 lines each; the number of tokens in a body must not matter)
BLOCK_BODY = ["p 1", "one", "one two three", "x = 1", "def broken(", "end", "note: a = b", "1 + ", "class Foo", "\"open", "it's", "", "=begin", " =end", "x =end",
              "<<~EOS", "%w(", "#{", "`", "/re", "?a ? b"]


_LIT = re.compile(r"""\"(?:[^\"\\\n]|\\.)*\"|'(?:[^'\\\n]|\\.)*'|\#.*""")


def wide_literal(line):
    """First double-quoted literal of the line (scanning literals left to right) that contains a blank and no interpolation."""
    for m in _LIT.finditer(line):
        t = m.group(0)
        if t.startswith('"') and " " in t and "#" not in t and "\\" not in t:
            return m
    return None


def apply_edit_lines(lines, row, new_lines):
    """Insert new_lines before (1-based) row."""
    return lines[:row - 1] + new_lines + lines[row - 1:]


class Check(Prop):
    ID = "C06"
    RULE = ("cases = (program, layout edit). Programs: generated from the Ruby-subset grammar (exact statement boundaries incl. bodies of "
            "class/def/if/unless/elsif/else/case-when/case-in/while/blocks) and golden corpus programs with a conservative boundary filter. Edits: insert "
            "1-3 blank lines or comment-only lines or a =begin/=end block comment (0-3 body lines, at column 0) at a boundary; widen a string literal by 1-3 embedded newlines (raw, or as backslash-newline continuations; one occurrence, or every line whose first such literal is the same text); drop or add the final "
            "newline. Oracle: records of `ti -i` (diagnostics + hints; plain mode sampled too) of the edited program equal the base "
            "records with rows after the edit shifted by the number of added lines, compared as multisets; rows of the widened "
            "statement itself are not compared. Non-trivial = the base output has a record after the edit point (for the final-newline "
            "edit: non-empty output); distinct by SHA-1(program, edit).")
    ASSUMPTIONS = (
        "crashing/hanging runs are discarded here (C01/C02 own them) and counted",
        "corpus boundaries come from a conservative syntactic filter (bracket depth 0, keyword depth tracked, no heredoc/continuation/multi-line string)",
        "violations seen through the in-process server are re-evaluated on the guard-off binary before being reported",
    )
    BUDGET = {"quick": 2400, "thorough": 40000}
    WALL = {"quick": 150, "thorough": 1500}

    def __init__(self, *a):
        Prop.__init__(self, *a)
        self.progs = [p for p in corpus.plain(self.repo) if len(p.text) < 5000 and "\r" not in p.text]
        self.cb = None

    def _corpus_bounds(self):
        if self.cb is None:
            self.cb = []
            for i, p in enumerate(self.progs):
                bs = corpus.safe_boundaries(p.text)
                if bs:
                    self.cb.append((i, [r for r, d in bs]))
        return self.cb

    def explicit(self):
        # seed-independent: final-newline edit on a fixed corpus subset, blank line at the middle boundary
        n = 40 if self.tier == "quick" else 400
        cb = self._corpus_bounds()
        step = max(1, len(cb) // n)
        for i, rows in cb[::step][:n]:
            p = self.progs[i]
            yield {"src": p.text, "edit": {"type": "final-newline"}, "origin": "corpus:" + p.name}
            yield {"src": p.text, "edit": {"type": "insert", "row": rows[len(rows) // 2], "lines": [""]}, "origin": "corpus:" + p.name}
            yield {"src": p.text, "edit": {"type": "insert", "row": rows[len(rows) // 3], "lines": ["# c"]}, "origin": "corpus:" + p.name}

    def strategy(self):
        cb = self._corpus_bounds()
        progs = self.progs

        ins_lines = st.one_of(
            st.integers(1, 3).map(lambda n: [""] * n),
            st.lists(st.sampled_from(COMMENTS), min_size=1, max_size=3),
            st.lists(st.sampled_from(COMMENTS + ["", "  "]), min_size=1, max_size=3),
            st.lists(st.sampled_from(BLOCK_BODY), min_size=0, max_size=3).map(lambda b: ["=begin"] + b + ["=end"]),
        )

        @st.composite
        def gen_case(draw):
            p = draw(rb.program(max_stmts=8, case_in=True))
            tree = p["tree"]
            kind = draw(st.integers(0, 9))
            src = rb.render(tree)
            if kind <= 5:
                bs = rb.boundaries(tree)
                path, idx, depth, ctx, is_end = bs[draw(st.integers(0, len(bs) - 1))]
                _, row, _ = rb.insert(tree, path, idx, [{"t": "MARK"}])
                new = draw(ins_lines)
                ind = "  " * depth
                if new[0] != "=begin":
                    new = [(ind + l if l.strip() and draw(st.booleans()) else l) for l in new]
                return {"src": src, "edit": {"type": "insert", "row": row, "lines": new, "ctx": ctx}}
            if kind <= 7:
                lines = src.split("\n")
                cands = [i for i, l in enumerate(lines) if wide_literal(l)]
                if cands:
                    r = cands[draw(st.integers(0, len(cands) - 1))]
                    return {"src": src, "edit": {"type": "widen", "row": r + 1, "n": draw(st.integers(1, 3)), "cont": draw(st.booleans()),
                                                 "all": draw(st.booleans())}}
            return {"src": src, "edit": {"type": "final-newline"}}

        @st.composite
        def corpus_case(draw):
            i, rows = cb[draw(st.integers(0, len(cb) - 1))]
            p = progs[i]
            if draw(st.integers(0, 5)) == 0:
                return {"src": p.text, "edit": {"type": "final-newline"}, "origin": "corpus:" + p.name}
            row = rows[draw(st.integers(0, len(rows) - 1))]
            return {"src": p.text, "edit": {"type": "insert", "row": row, "lines": draw(ins_lines)}, "origin": "corpus:" + p.name}

        return st.one_of(gen_case(), gen_case(), corpus_case())

    def sample(self, case):
        return {"src": case["src"][:500], "edit": case["edit"], "origin": case.get("origin", "generated")}

    @staticmethod
    def edited(case):
        """Returns (new_src, pivot_row, shift, dontcare_base_rows, dontcare_new_rows)."""
        src = case["src"]
        e = case["edit"]
        if e["type"] == "final-newline":
            new = src[:-1] if src.endswith("\n") else src + "\n"
            return new, 10 ** 9, 0, set(), set()
        lines = src.split("\n")
        if e["type"] == "insert":
            new = apply_edit_lines(lines, e["row"], e["lines"])
            return "\n".join(new), e["row"], len(e["lines"]), set(), set()
        if e["type"] == "widen":
            r = e["row"]
            l = lines[r - 1]
            m = wide_literal(l)
            lit = m.group(0)
            k = lit.index(" ")
            if e.get("cont"):
                # backslash-newline continuation inside a double-quoted literal: the value keeps its blank, the literal spans more lines
                lit2 = lit[:k] + " " + "\\\n" * e["n"] + lit[k + 1:]
            else:
                lit2 = lit[:k] + "\n" * e["n"] + lit[k + 1:]
            rows = [r]
            if e.get("all"):
                # the same literal widened the same way wherever a line's first wide literal is this one: identical multi-line
                # literals must each move the rows on
                rows = [i + 1 for i, x in enumerate(lines) if (wide_literal(x) and wide_literal(x).group(0) == lit)]
            for ri in rows:
                x = lines[ri - 1]
                mm = wide_literal(x)
                lines[ri - 1] = x[:mm.start()] + lit2 + x[mm.end():]
            if len(rows) == 1:
                return "\n".join(lines), r + 1, e["n"], {r}, set(range(r, r + e["n"] + 1))
            n = e["n"]

            def shift(row):
                return row + n * len([ri for ri in rows if ri < row])
            dc_new = set()
            for ri in rows:
                dc_new |= set(range(shift(ri), shift(ri) + n + 1))
            return "\n".join(lines), shift, None, set(rows), dc_new
        raise ValueError(e["type"])

    def evaluate(self, case, rt):
        src = case["src"]
        e = case["edit"]
        key = run.sha(src, repr(sorted(e.items())))
        labels = [e["type"] + ("-continuation" if e.get("cont") else "") + ("-all" if e.get("all") else ""), case.get("origin", "generated").split(":")[0]]
        if e.get("ctx"):
            labels.append("in-" + e["ctx"])
        if e["type"] == "insert":
            labels.append("block-comment" if e["lines"][0] == "=begin" else "comment" if any(l.strip().startswith("#") for l in e["lines"]) else "blank")
        flags = ["-i"] if int(key[:2], 16) % 4 else []
        labels.append("flags:" + (flags[0] if flags else "plain"))
        try:
            new_src, pivot, shift, dc_base, dc_new = self.edited(case)
            base = meta.analyse(rt, src, flags)
            got = meta.analyse(rt, new_src, flags)
        except meta.Discard as d:
            return meta.discard_verdict(d, labels, key)
        # base rows >= pivot move by shift (insertion before row `pivot`)
        if callable(pivot):
            exp = [(k, pivot(r), t) for k, r, t in base if r not in dc_base]
            pivot = min(dc_base)
        else:
            exp = [(k, (r + shift if r >= pivot else r), t) for k, r, t in base if r not in dc_base]
        got2 = [(k, r, t) for k, r, t in got if r not in dc_new]
        nontrivial = any(r >= pivot for k, r, t in base) if e["type"] != "final-newline" else bool(base)
        if meta.same(exp, got2):
            return Verdict(None, labels, nontrivial, key)
        d = meta.diff(exp, got2)
        return Verdict({"what": "layout edit %s changed more than rows: %s" % (e["type"], d), "edit": e, "diff": d, "flags": flags,
                        "src": src[:3000], "new_src": new_src[:3000]}, labels + ["mismatch"], nontrivial, key)

    def matchers(self):
        def m_ctx(case, v, params):
            """Finding keyed by the construct on the line above the inserted lines / the edit type."""
            e = case["edit"]
            if e["type"] != params.get("type", e["type"]):
                return False
            if "block_body" in params:
                if e["type"] != "insert" or not e["lines"] or e["lines"][0] != "=begin":
                    return False
                return any(re.search(params["block_body"], l) for l in e["lines"][1:-1])
            if "prev_line" in params:
                if e["type"] != "insert":
                    return False
                lines = case["src"].split("\n")
                prev = lines[e["row"] - 2] if e["row"] >= 2 else ""
                return re.search(params["prev_line"], prev) is not None
            if "last_line" in params:
                ll = case["src"].rstrip("\n").split("\n")[-1]
                return re.search(params["last_line"], ll) is not None
            return False
        return {"c06_ctx": m_ctx}
