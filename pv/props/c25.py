"""C25 — rbs2json conversion is deterministic and keeps signature shape."""
import json
import os
import shutil
import subprocess
import tempfile

from hypothesis import strategies as st

from .. import meta, run
from ..engine import Prop, Verdict

SIMPLE = ["Integer", "String", "Float", "Symbol"]
MAP = {"Integer": "Int", "String": "String", "Float": "Float", "Symbol": "Symbol"}
LIT = {"Integer": "1", "String": '"s"', "Float": "1.5", "Symbol": ":a"}
KEYS = ["alpha", "beta", "gamma", "delta", "eps", "zeta"]


def ci(name, args=None):
    # type references are written `Integer` or `::Integer`; both occur in real signatures (the choice is fixed per name, not random)
    return {"class": "class_instance", "name": ("::" + name) if name in ("String", "Array") else name, "args": args or []}


@st.composite
def rbs_type(draw, base=None):
    """Returns (rbs type json, expected ti type list)."""
    b = base or draw(st.sampled_from(SIMPLE))
    k = draw(st.integers(0, 9))
    if k < 6:
        return ci(b), [MAP[b]]
    if k == 6:
        return {"class": "optional", "type": ci(b)}, [MAP[b], "NilClass"]
    if k == 7:
        o = draw(st.sampled_from([x for x in SIMPLE if x != b]))
        return {"class": "union", "types": [ci(b), ci(o)]}, [MAP[b], MAP[o]]
    if k == 8:
        return ci("Array", [ci(b)]), ["[%s]" % MAP[b]]
    return {"class": "untyped"}, ["Untyped"]


@st.composite
def overload(draw, uniform=None):
    """uniform: a simple class name used for every parameter (so that any count of literal arguments type-checks)."""
    def param():
        if uniform:
            return {"type": ci(uniform), "name": "p"}, [MAP[uniform]]
        t, e = draw(rbs_type())
        return {"type": t, "name": "p"}, e
    req = [param() for _ in range(draw(st.integers(0, 2)))]
    opt = [param() for _ in range(draw(st.integers(0, 2)))]
    rest = param() if draw(st.integers(0, 4)) == 0 else None
    trail = [param() for _ in range(draw(st.integers(0, 1)))] if rest else []
    nrk = draw(st.sampled_from([0, 0, 2, 3]))
    nok = draw(st.sampled_from([0, 0, 2, 3]))
    names = list(draw(st.permutations(KEYS)))
    rks = {names[i]: param() for i in range(nrk)}
    oks = {names[nrk + i]: param() for i in range(min(nok, len(names) - nrk))}
    if uniform:
        ret, rete = ci("String"), ["String"]
    else:
        ret, rete = draw(rbs_type())
        if rete == ["Untyped"]:
            ret, rete = ci("String"), ["String"]
    ft = {"required_positionals": [p for p, _ in req], "optional_positionals": [p for p, _ in opt],
          "rest_positionals": rest[0] if rest else None, "trailing_positionals": [p for p, _ in trail],
          "required_keywords": {k: v[0] for k, v in rks.items()}, "optional_keywords": {k: v[0] for k, v in oks.items()},
          "rest_keywords": None, "return_type": ret}
    exp = ([{"type": e} for _, e in req] + [{"type": e, "is_default": True} for _, e in opt] + ([{"type": rest[1], "is_asterisk": True}] if rest else [])
           + [{"type": e} for _, e in trail])
    exp_rk = {k + ":": {"type": v[1], "key": k + ":"} for k, v in rks.items()}
    exp_ok = {k + ":": {"type": v[1], "key": k + ":", "is_default": True} for k, v in oks.items()}
    return {"ft": ft, "exp_pos": exp, "exp_rk": exp_rk, "exp_ok": exp_ok, "ret": rete,
            "nreq": len(req), "nopt": len(opt), "rest": bool(rest), "ntrail": len(trail), "rks": sorted(rks), "oks": sorted(oks)}


@st.composite
def rbs_document(draw):
    classes = []
    for ci_, cname in enumerate(["Rbalpha", "Rbbeta"][:draw(st.integers(1, 2))]):
        members = [{"member": "method_definition", "name": "initialize", "kind": "instance", "visibility": None,
                    "overloads": [{"method_type": {"type_params": [], "type": {"required_positionals": [], "optional_positionals": [], "rest_positionals": None,
                                                                             "trailing_positionals": [], "required_keywords": {}, "optional_keywords": {},
                                                                             "rest_keywords": None, "return_type": {"class": "void"}}, "block": None}}]}]
        meths = []
        for mi in range(draw(st.integers(1, 3))):
            uniform = draw(st.sampled_from([None, "Integer", "Integer", "String"]))
            ovs = [draw(overload(uniform)) for _ in range(draw(st.sampled_from([1, 1, 2])))]
            kind = draw(st.sampled_from(["instance", "instance", "singleton"]))
            name = "m%d" % mi
            members.append({"member": "method_definition", "name": name, "kind": kind, "visibility": None,
                            "overloads": [{"method_type": {"type_params": [], "type": o["ft"], "block": None}} for o in ovs]})
            meths.append({"name": name, "kind": kind, "ovs": [{k: v for k, v in o.items() if k != "ft"} for o in ovs], "uniform": uniform})
            if draw(st.integers(0, 5)) == 0:
                members.append({"member": "alias", "new_name": name + "_alias", "old_name": name, "kind": kind})
                meths.append({"name": name + "_alias", "kind": kind, "ovs": [{k: v for k, v in o.items() if k != "ft"} for o in ovs], "uniform": uniform})
        if draw(st.integers(0, 3)) == 0:
            members.append({"member": "attr_reader", "name": "attr%d" % ci_, "kind": "instance", "type": ci("Integer"), "ivar_name": None})
        decl = {"declaration": draw(st.sampled_from(["class", "class", "module"])) if ci_ else "class", "name": cname,
                "type_params": [], "members": members, "super_class": None, "comment": None}
        classes.append({"decl": decl, "name": cname, "meths": meths})
    return {"decls": [c["decl"] for c in classes], "classes": [{"name": c["name"], "meths": c["meths"], "is_module": c["decl"]["declaration"] == "module"} for c in classes]}


class Check(Prop):
    ID = "C25"
    WANT = ("ti", "server", "rbs2json")
    SHARDS = 4
    RULE = ("cases = generated RBS-AST documents (the JSON the embedded Ruby script prints): 1-2 classes/modules with an initialize, 1-3 "
            "methods (instance or singleton) of 1-2 overloads, each with 0-2 required, 0-2 optional, an optional rest with 0-1 trailing "
            "positionals, 0/2/3 required and 0/2/3 optional keywords (names in random order), parameter types out of class instances, "
            "optionals, unions, Array[T], untyped; aliases and attr_reader members. The converter is run through a stand-in `ruby` on "
            "PATH that prints the document. Oracle: (1) k runs (3 quick / 5 thorough) into fresh directories and one run to stdout give "
            "byte-identical files/output; (2) per overload the emitted arguments are: required, optional (is_default), rest "
            "(is_asterisk), trailing, required keywords, optional keywords (is_default) - groups in that order, keywords inside a group "
            "compared as a set unless sorted - with the documented type mapping (Integer->Int, T?->[T,NilClass], unions->lists, "
            "Array[T]->[T], untyped->Untyped); initialize becomes class method new; (3) with the emitted directory as .ti-config, calls "
            "with k = 0..6 positional literal arguments (all required keywords given), and with each required keyword left out, every optional keyword given and one keyword of another class, of single-overload methods whose parameters share one "
            "simple type are accepted (no diagnostic on the row) exactly when required <= k <= required+optional (+trailing; unbounded with "
            "rest). Non-trivial = >= 1 overload with >= 2 keywords in a group or with optional/rest parameters.")
    ASSUMPTIONS = (
        "the stand-in ruby replaces only the RBS parser: everything after the AST JSON is the converter under test",
        "arity is not asserted for the shape optional + rest + trailing (C07 listed finding default-rest-trailing-too-few) nor for multi-overload methods",
    )
    BUDGET = {"quick": 240, "thorough": 4000}
    WALL = {"quick": 150, "thorough": 1500}

    def strategy(self):
        return rbs_document()

    def sample(self, case):
        return {"classes": [{"name": c["name"], "methods": [(m["name"], m["kind"], len(m["ovs"])) for m in c["meths"]]} for c in case["classes"]]}

    def convert(self, case, work, n):
        """Run the converter n times into fresh dirs (+ once to stdout). Returns (list of {file: bytes}, stdout text, error)."""
        bindir = os.path.join(work, "bin")
        os.makedirs(bindir, exist_ok=True)
        rb = os.path.join(bindir, "ruby")
        with open(rb, "w") as fh:
            fh.write("#!/bin/sh\nfor a in \"$@\"; do last=$a; done\ncat \"$last\"\n")
        os.chmod(rb, 0o755)
        inp = os.path.join(work, "input.rbs.json")
        with open(inp, "w") as fh:
            json.dump(case["decls"], fh)
        env = dict(os.environ, PATH=bindir + os.pathsep + os.environ.get("PATH", ""))
        outs = []
        for i in range(n):
            od = os.path.join(work, "out%d" % i) + "/"
            r = subprocess.run([self.bins.rbs2json, "-o", od, inp], env=env, stdout=subprocess.PIPE, stderr=subprocess.PIPE, cwd=work, timeout=30)
            if r.returncode != 0:
                return None, None, "rbs2json exit %d: %s" % (r.returncode, r.stderr.decode("utf8", "replace")[-300:])
            files = {}
            for f in sorted(os.listdir(od)):
                files[f] = open(os.path.join(od, f), "rb").read()
            outs.append(files)
        r1 = subprocess.run([self.bins.rbs2json, inp], env=env, stdout=subprocess.PIPE, stderr=subprocess.PIPE, cwd=work, timeout=30)
        r2 = subprocess.run([self.bins.rbs2json, inp], env=env, stdout=subprocess.PIPE, stderr=subprocess.PIPE, cwd=work, timeout=30)
        return outs, (r1.stdout, r2.stdout), None

    def evaluate(self, case, rt):
        key = run.sha(json.dumps(case, sort_keys=True))
        labels = []
        work = tempfile.mkdtemp(prefix="c25-", dir=rt.root)
        try:
            outs, std, err = self.convert(case, work, 3 if self.tier == "quick" else 5)
            if err:
                return Verdict({"what": "converter failed: " + err, "kind": "converter-error", "inproc_is_truth": True}, labels, False, key)
            nontrivial = any(len(o["rks"]) >= 2 or len(o["oks"]) >= 2 or o["nopt"] or o["rest"] for c in case["classes"] for m in c["meths"] for o in m["ovs"])
            for i, o in enumerate(outs[1:], 1):
                if o != outs[0]:
                    bad = [f for f in outs[0] if o.get(f) != outs[0][f]] or sorted(set(o) ^ set(outs[0]))
                    return Verdict({"what": "run %d differs from run 0 in %s" % (i, bad[:3]), "kind": "nondeterministic", "inproc_is_truth": True,
                                    "a": outs[0].get(bad[0], b"").decode("utf8", "replace")[:1500], "b": o.get(bad[0], b"").decode("utf8", "replace")[:1500]},
                                   labels + ["nondeterministic"], nontrivial, key)
            if std[0] != std[1]:
                return Verdict({"what": "two stdout conversions differ", "kind": "nondeterministic", "inproc_is_truth": True}, labels + ["nondeterministic"], nontrivial, key)
            # (2) shape
            byclass = {}
            for f, data in outs[0].items():
                d = json.loads(data)
                byclass[d["class"]] = d
            for c in case["classes"]:
                d = byclass.get(c["name"])
                if d is None:
                    return Verdict({"what": "no output file for class %s (files %s)" % (c["name"], sorted(outs[0])), "kind": "shape", "inproc_is_truth": True}, labels, nontrivial, key)
                if not any(m["name"] == "new" for m in d.get("class_methods") or []):
                    return Verdict({"what": "initialize of %s was not converted to class method new" % c["name"], "kind": "shape", "inproc_is_truth": True}, labels, nontrivial, key)
                for m in c["meths"]:
                    got = [x for x in (d.get("class_methods") if m["kind"] == "singleton" else d.get("instance_methods")) or [] if x["name"] == m["name"]]
                    if len(got) != len(m["ovs"]):
                        return Verdict({"what": "%s.%s: %d overloads expected, %d emitted" % (c["name"], m["name"], len(m["ovs"]), len(got)), "kind": "shape",
                                        "inproc_is_truth": True}, labels, nontrivial, key)
                    for o, g in zip(m["ovs"], got):
                        args = g["arguments"]
                        npos = len(o["exp_pos"])
                        problems = []
                        if args[:npos] != o["exp_pos"]:
                            problems.append("positionals %s != %s" % (args[:npos], o["exp_pos"]))
                        rk = args[npos:npos + len(o["exp_rk"])]
                        ok_ = args[npos + len(o["exp_rk"]):]
                        if sorted(rk, key=lambda a: a.get("key", "")) != [o["exp_rk"][k] for k in sorted(o["exp_rk"])]:
                            problems.append("required keyword group %s != %s" % (rk, list(o["exp_rk"].values())))
                        if sorted(ok_, key=lambda a: a.get("key", "")) != [o["exp_ok"][k] for k in sorted(o["exp_ok"])]:
                            problems.append("optional keyword group %s != %s" % (ok_, list(o["exp_ok"].values())))
                        if g["return_type"]["type"] != o["ret"]:
                            problems.append("return %s != %s" % (g["return_type"]["type"], o["ret"]))
                        if problems:
                            return Verdict({"what": "%s.%s: %s" % (c["name"], m["name"], "; ".join(problems)[:600]), "kind": "shape", "inproc_is_truth": True},
                                           labels + ["shape"], nontrivial, key)
            # (3) arity through ti
            files = {f: data.decode("utf8") for f, data in outs[0].items()}
            lines, exp = [], []
            for c in case["classes"]:
                if c["is_module"]:
                    continue
                lines.append("o_%s = %s.new" % (c["name"].lower(), c["name"]))
                for m in c["meths"]:
                    if len(m["ovs"]) != 1 or not m["uniform"]:
                        continue
                    o = m["ovs"][0]
                    if o["nopt"] and o["rest"] and o["ntrail"]:
                        continue
                    lo = o["nreq"] + o["ntrail"]
                    hi = None if o["rest"] else o["nreq"] + o["nopt"]
                    recv = c["name"] if m["kind"] == "singleton" else "o_" + c["name"].lower()
                    for k in range(0, 7):
                        a = [LIT[m["uniform"]]] * k + ["%s: %s" % (kk, LIT[m["uniform"]]) for kk in o["rks"]]
                        lines.append("%s.%s(%s)" % (recv, m["name"], ", ".join(a)))
                        exp.append((len(lines), k >= lo and (hi is None or k <= hi), "%s.%s k=%d accepts [%d,%s]" % (c["name"], m["name"], k, lo, hi)))
                    # keywords, with an accepted positional count: every required keyword is needed, every optional one may be given,
                    # and a keyword keeps its own type (a literal of another class is rejected)
                    pos = [LIT[m["uniform"]]] * lo
                    other = [v for kname, v in LIT.items() if kname != m["uniform"]][0]
                    full = ["%s: %s" % (kk, LIT[m["uniform"]]) for kk in o["rks"]]
                    opts = ["%s: %s" % (kk, LIT[m["uniform"]]) for kk in o["oks"]]
                    if o["oks"]:
                        lines.append("%s.%s(%s)" % (recv, m["name"], ", ".join(pos + full + opts)))
                        exp.append((len(lines), True, "%s.%s with every optional keyword" % (c["name"], m["name"])))
                    for i_, kk in enumerate(o["rks"]):
                        lines.append("%s.%s(%s)" % (recv, m["name"], ", ".join(pos + full[:i_] + full[i_ + 1:] + opts)))
                        exp.append((len(lines), False, "%s.%s without the required keyword %s" % (c["name"], m["name"], kk)))
                    for kk in (o["rks"][:1] + o["oks"][:1]):
                        a = pos + [x for x in full + opts if not x.startswith(kk + ":")] + ["%s: %s" % (kk, other)]
                        lines.append("%s.%s(%s)" % (recv, m["name"], ", ".join(a)))
                        exp.append((len(lines), False, "%s.%s with keyword %s of another class" % (c["name"], m["name"], kk)))
            if exp:
                labels.append("arity-probed")
                src = "\n".join(lines) + "\n"
                try:
                    recs = meta.analyse(rt, src, [], config=files)
                except meta.Discard as d:
                    return meta.discard_verdict(d, labels, key)
                rows = {}
                for k_, r, t in recs:
                    rows.setdefault(r, []).append(t)
                for row, accepted, why in exp:
                    if accepted == bool(rows.get(row)):
                        return Verdict({"what": "arity: %s, ti says %s" % (why, rows.get(row) or "accepted"), "kind": "arity", "program": meta.with_rows(src), "config": files},
                                       labels + ["arity"], nontrivial, key)
            return Verdict(None, labels, nontrivial, key)
        finally:
            shutil.rmtree(work, ignore_errors=True)
