"""Known-finding matchers shared by C07/C08 (identify a finding by the failing call shape)."""
from .. import cfg as cfgmod


def _decl_parts(d):
    P = [a for a in d["args"] if not a["key"] and not a["rest"]]
    R = [a for a in d["args"] if a["rest"]]
    K = {a["key"]: a for a in d["args"] if a["key"]}
    return P, R, K


def too_many_with_untyped_return(case, v, params):
    """C07 F2: more positionals than any declaration takes, and every candidate declaration returns Untyped."""
    p = v.get("probe")
    ds = v.get("decls") or []
    if not p or not ds or v.get("reason") != "count":
        return False
    return all(d["ret"] == ["Untyped"] for d in ds) and all(len(p["pos"]) > len(_decl_parts(d)[0]) and not _decl_parts(d)[1] for d in ds)


def object_class_by_ttype(case, v, params):
    """C07 F1: the only rejected arguments are object-class (or union-with-object-class) arguments against parameters naming other object classes."""
    p = v.get("probe")
    ds = v.get("decls") or []
    if not p or not ds or "type" not in (v.get("reason") or ""):
        return False
    classes = {c["class"] for c in case["cfg"]["classes"]}
    for d in ds:
        P, R, K = _decl_parts(d)
        bad = []
        for i, s in enumerate(p["pos"]):
            if i < len(P):
                bad.append((P[i], set(s)))
        for k, s in p["kws"].items():
            if k in K:
                bad.append((K[k], set(s)))
        rejected = [(a, s) for a, s in bad if "Untyped" not in a["types"] and not (s & {cfgmod.cls_of(t) for t in a["types"]})]
        if not rejected:
            continue
        if all((s & classes) and (set(a["types"]) & classes) for a, s in rejected):
            return True
    return False


def overload_shared_keyword(case, v, params):
    """C08: two overloads of the called method declare the same keyword with different types (the loader stores keyword
    parameters by name, so the later overload overwrites the earlier one's type) (whether or not the call passes that keyword)."""
    p = v.get("probe")
    if not p:
        return False
    model = cfgmod.Model(case["cfg"])
    for c in p["R"]:
        ds = model.decls(c, p["m"], p.get("static", False))
        if len(ds) < 2:
            continue
        for k in sorted({a["key"] for d in ds for a in d["args"] if a["key"]}):
            sigs = [tuple(a["types"]) + (a["default"],) for d in ds for a in d["args"] if a["key"] == k]
            if len(sigs) >= 2 and len(set(sigs)) >= 2:
                return True
    return False


def default_rest_trailing_too_few(case, v, params):
    """C07: a declaration (?a, *r, t) - defaulted positional, rest, trailing required positional - is taken to accept a call that
    passes fewer positionals than its required ones; identified by that declaration shape and the argument count."""
    p = v.get("probe")
    if not p or "count" not in (v.get("reason") or ""):
        return False
    for d in v.get("decls") or []:
        pos_args = [a for a in d["args"] if not a["key"]]
        ridx = next((i for i, a in enumerate(pos_args) if a["rest"]), None)
        if ridx is None:
            continue
        before, after = pos_args[:ridx], pos_args[ridx + 1:]
        need = len([a for a in before if not a["default"]]) + len(after)
        if after and any(a["default"] for a in before) and len(p["pos"]) < need:
            return True
    return False


MATCHERS = {
    "c07_default_rest_trailing_too_few": default_rest_trailing_too_few,
    "c08_overload_shared_keyword": overload_shared_keyword,
    "c07_too_many_untyped_return": too_many_with_untyped_return,
    "c07_object_class_by_ttype": object_class_by_ttype,
}
