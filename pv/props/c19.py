"""C19 — config file names and splitting do not matter."""
import json
import os

from hypothesis import strategies as st

from .. import callprog, cfg as cfgmod, corpus, meta, rb, run
from ..engine import Prop, Verdict
from .c14 import shipped_config


def free_overloads(meths, name):
    """True when the declarations of `name` are plain required positionals with pairwise different counts (>= 2 declarations)."""
    ds = [m for m in meths if m["name"] == name]
    if len(ds) < 2:
        return False
    if any(a["key"] or a["rest"] or a["default"] for d in ds for a in d["args"]):
        return False
    counts = [len(d["args"]) for d in ds]
    return len(set(counts)) == len(counts)


def split_render(c, plan):
    """Render an abstract config with class declarations split over files.

    plan: list (per class) of dicts {"parts": k, "assign_i": [part index per instance method], "assign_c": [...], "ext_part": int},
    plus "order": permutation keys. Returns {filename: text}; file names sort in the planned order."""
    pieces = []
    for ci, cls in enumerate(c["classes"]):
        pl = plan["classes"][ci]
        k = pl["parts"]
        for part in range(k):
            ims = [m for m, a in zip(cls["imethods"], pl["assign_i"]) if a % k == part]
            cms = [m for m, a in zip(cls["cmethods"], pl["assign_c"]) if a % k == part]
            with_ext = (pl["ext_part"] % k) == part
            if not ims and not cms and not (with_ext and cls.get("extends")) and part != 0:
                continue
            pieces.append((ci, part, cfgmod.render_class(cls, None, ims, cms, with_extends=with_ext)))
    order = plan["order"]
    keyed = sorted(range(len(pieces)), key=lambda i: (order[i % len(order)], i))
    files = {}
    for rank, i in enumerate(keyed):
        ci, part, d = pieces[i]
        files["%02d_%s_%d.json" % (rank, d["class"].lower(), part)] = json.dumps(d, indent=1)
    return files


class Check(Prop):
    ID = "C19"
    RULE = ("cases = (a) the shipped configuration with its files renamed so that the load order is a random permutation, against corpus "
            "and grammar-generated programs; (b) generated configurations (extends chains, overloads, keyword/default/rest parameters) "
            "rendered once with one file per class in declaration order and once with every class split over 1-3 files (methods "
            "partitioned, `extends` in any one part; declarations of one method stay in one file unless they are plain required positionals of pairwise different counts, which may be spread - then only accepted calls are compared - and are also enumerated in every order) in a random file order, against call programs that call the configured methods with "
            "accepted and rejected arguments. Oracle: identical `ti -i` output (plain sampled). Non-trivial = (a) the program's output is "
            "non-empty; (b) some class the program calls is split or the order of the files of the called classes changes; distinct by SHA-1.")
    ASSUMPTIONS = (
        "the relative order of the overloads of one method is kept inside a part and across parts only when the property allows: "
        "overloads of the same method are assigned to the same part (their order is observable by design) unless they are plain required positionals of pairwise different counts",
        "crashing/hanging runs are discarded here and counted",
    )
    BUDGET = {"quick": 1200, "thorough": 20000}
    WALL = {"quick": 150, "thorough": 1500}

    def __init__(self, *a):
        Prop.__init__(self, *a)
        self.shipped = shipped_config(self.repo)
        self.progs = [p for p in corpus.plain(self.repo) if len(p.text) < 3000]

    def explicit(self):
        """Seed-independent: declarations of one method that differ in their count, spread over two or three files of one class in
        every order, called with each accepted count."""
        import itertools
        for counts in ((1, 2), (0, 2), (2, 1, 3)):
            ims = [{"name": "m0", "args": [{"types": ["Int"], "key": None, "default": False, "rest": False} for _ in range(k)],
                    "ret": [["Int"], ["String"], ["Float"]][i], "block": []} for i, k in enumerate(counts)]
            ims.append({"name": "zz", "args": [], "ret": ["Symbol"], "block": []})
            cfg = {"classes": [{"frame": "Builtin", "class": "Alpha", "extends": [], "imethods": ims,
                                "cmethods": [{"name": "new", "args": [], "ret": ["Alpha"], "block": []}]}]}
            lines, probes = [], []
            for k in counts:
                i = len(probes)
                lines += ["v%d = Alpha.new" % i, "r%d = v%d.m0(%s)" % (i, i, ", ".join(["1"] * k)), "dbtp r%d" % i]
                probes.append({"row": len(lines) - 1, "R": ["Alpha"], "m": "m0", "pos": [["Integer"]] * k, "kws": {}, "static": False,
                               "var": "r%d" % i, "dbtp_row": len(lines)})
            n = len(counts)
            for assign in itertools.permutations(range(n)):
                for order in ([0, 1, 2, 3, 4, 5, 6, 7], [7, 6, 5, 4, 3, 2, 1, 0]):
                    plan = {"classes": [{"parts": n, "assign_i": list(assign) + [0], "assign_c": [0], "ext_part": 0}], "order": order}
                    yield {"kind": "split", "cfg": cfg, "lines": lines, "probes": probes, "plan": plan}

    def strategy(self):
        names = sorted(self.shipped)
        progs = self.progs

        @st.composite
        def shipped_case(draw):
            perm = draw(st.permutations(list(range(len(names)))))
            if draw(st.booleans()):
                p = progs[draw(st.integers(0, len(progs) - 1))]
                src, origin = p.text, "corpus:" + p.name
            else:
                src, origin = rb.render(draw(rb.program(max_stmts=8))["tree"]), "generated"
            return {"kind": "shipped", "perm": list(perm), "src": src, "origin": origin}

        @st.composite
        def split_case(draw):
            c = draw(cfgmod.gen_config())
            prog = draw(callprog.call_program(config=c, ncalls=(3, 6), nest=False))
            plan = {"classes": [], "order": draw(st.lists(st.integers(0, 99), min_size=8, max_size=8))}
            for cls in c["classes"]:
                k = draw(st.integers(1, 3))
                # overloads of one method stay together (same name -> same part)
                by_name = {}
                ai = []
                for m in cls["imethods"]:
                    if free_overloads(cls["imethods"], m["name"]) and draw(st.booleans()):
                        # declarations that no call can confuse (plain required positionals, pairwise different counts) may sit in
                        # different files: which one answers does not depend on the order they are loaded in
                        ai.append(draw(st.integers(0, 2)))
                        continue
                    if m["name"] not in by_name:
                        by_name[m["name"]] = draw(st.integers(0, 2))
                    ai.append(by_name[m["name"]])
                by_name_c = {}
                ac = []
                for m in cls["cmethods"]:
                    if m["name"] not in by_name_c:
                        by_name_c[m["name"]] = draw(st.integers(0, 2))
                    ac.append(by_name_c[m["name"]])
                plan["classes"].append({"parts": k, "assign_i": ai, "assign_c": ac, "ext_part": draw(st.integers(0, 2))})
            return {"kind": "split", "cfg": c, "lines": prog["lines"], "probes": prog["probes"], "plan": plan}

        return st.one_of(split_case(), split_case(), shipped_case())

    def sample(self, case):
        if case["kind"] == "shipped":
            return {"kind": "shipped", "perm": case["perm"][:10], "src": case["src"][:300]}
        return {"kind": "split", "program": "\n".join(case["lines"]), "files": sorted(split_render(case["cfg"], case["plan"]))}

    def evaluate(self, case, rt):
        if case["kind"] == "shipped":
            names = sorted(self.shipped)
            fa = dict(self.shipped)
            fb = {"%02d_%s" % (rank, names[i]): self.shipped[names[i]] for rank, i in enumerate(case["perm"])}
            src = case["src"]
            labels = ["shipped-permutation", case.get("origin", "generated").split(":")[0]]
        else:
            fa = cfgmod.render_files(case["cfg"])
            fb = split_render(case["cfg"], case["plan"])
            src = "\n".join(case["lines"]) + "\n"
            labels = ["generated-split", "files:%d" % len(fb)]
            if any(p["parts"] > 1 for p in case["plan"]["classes"]):
                labels.append("class-split")
            if any(c.get("extends") for c in case["cfg"]["classes"]):
                labels.append("extends")
        key = run.sha(src, json.dumps(fa, sort_keys=True), json.dumps(fb, sort_keys=True))
        flags = ["-i"] if int(key[:2], 16) % 4 else []
        try:
            a = meta.analyse(rt, src, flags, config=fa)
            b = meta.analyse(rt, src, flags, config=fb)
        except meta.Discard as d:
            return meta.discard_verdict(d, labels, key)
        nontrivial = bool(a) and (case["kind"] == "shipped" or len(fb) != len(fa) or list(fa.values()) != list(fb.values()))
        if case["kind"] == "split":
            # declarations of one method spread over several files: a call every declaration rejects is reported in terms of
            # whichever declaration was tried last, which is load order by design. Only accepted calls are compared for them.
            spread = set()
            for cls, pl in zip(case["cfg"]["classes"], case["plan"]["classes"]):
                parts = {}
                for m, a_ in zip(cls["imethods"], pl["assign_i"]):
                    parts.setdefault(m["name"], set()).add(a_ % pl["parts"])
                spread |= {n for n, ps in parts.items() if len(ps) > 1}
            if spread:
                labels.append("overloads-spread")
                vs, _ = callprog.verdicts(case)
                skip = set()
                for p_, v_, why, app in vs:
                    if p_["m"] in spread and v_ != "MUST_OK":
                        skip |= {p_["row"], p_["dbtp_row"]}
                a = [x for x in a if x[1] not in skip]
                b = [x for x in b if x[1] not in skip]
        if sorted(a) == sorted(b):
            return Verdict(None, labels, nontrivial, key)
        d = meta.diff(a, b)
        v = {"what": "equivalent config directories give different output: %s" % d, "diff": d, "flags": flags, "program": src[:3000]}
        if case["kind"] == "split":
            v["files_single"] = fa
            v["files_split"] = fb
        return Verdict(v, labels + ["mismatch"], nontrivial, key)

    def matchers(self):
        def m_split_extends(case, v, params):
            """A class with `extends` whose methods live in a different file than ... (finding keyed by shape): some split class has
            extends and one of its methods shares its name with a method of an ancestor."""
            if case.get("kind") != "split":
                return False
            model = cfgmod.Model(case["cfg"])
            for cls, pl in zip(case["cfg"]["classes"], case["plan"]["classes"]):
                if not cls.get("extends"):
                    continue
                anc = model.ancestors(cls["class"])[1:]
                for kind in ("imethods", "cmethods"):
                    inherited = {m["name"] for a in anc for m in model.classes[a][kind]}
                    if any(m["name"] in inherited for m in cls[kind]):
                        return True
            return False
        return {"c19_split_extends_same_name": m_split_extends}
