"""C24 — the LLM navigator's call graph matches the source."""
import re

from hypothesis import strategies as st

from .. import meta, run
from ..engine import Prop, Verdict

FORMS = ["stmt", "assign", "arg", "if-cond", "elsif-cond", "unless-cond", "while-cond", "block", "ternary", "chain", "nested-arg", "eq-rhs-cond", "same-row-twice"]


@st.composite
def call_graph_program(draw):
    """Top-level methods t0..tn and a class with instance methods; call sites of known shape in method bodies and at top level."""
    nt = draw(st.integers(2, 4))
    tops = ["tm%d" % i for i in range(nt)]
    use_class = draw(st.booleans())
    cms = ["cm%d" % i for i in range(draw(st.integers(1, 2)))] if use_class else []
    bodies = {}     # caller -> list of (form, callee)
    callers = tops[1:] + ["<top>"]
    for c in callers:
        n = draw(st.integers(0, 3)) if c != "<top>" else draw(st.integers(1, 5))
        sites = []
        for _ in range(n):
            pool = [t for t in tops if t != c and (c == "<top>" or tops.index(t) < tops.index(c))]
            kinds = []
            if pool:
                kinds.append("top")
            if cms:
                kinds.append("inst")
            if not kinds:
                continue
            k = draw(st.sampled_from(kinds))
            callee = draw(st.sampled_from(pool)) if k == "top" else draw(st.sampled_from(cms))
            sites.append([draw(st.sampled_from(FORMS)), k, callee])
        bodies[c] = sites
    implicit = draw(st.integers(0, 3)) == 0 and len(cms) >= 2
    return {"tops": tops, "cms": cms, "bodies": bodies, "implicit": implicit, "sub": bool(cms) and draw(st.integers(0, 2)) == 0,
            "selfcall": draw(st.booleans())}


def render(case):
    """Returns (src, expected callers per method: {name: [(row, caller method, caller class)]}, defs {name: class})."""
    lines = []
    exp = {}
    tops, cms = case["tops"], case["cms"]
    cls = "Kk"

    def call(kind, callee, arg="1"):
        return "%s(%s)" % (callee, arg) if kind == "top" else "ko.%s(%s)" % (callee, arg)

    def emit_site(ind, form, kind, callee, caller, ccls):
        def rec(row, n=1):
            for _ in range(n):
                exp.setdefault(callee, []).append((row, caller, ccls))
        c = call(kind, callee)
        if form == "stmt":
            lines.append(ind + c)
            rec(len(lines))
        elif form == "assign":
            lines.append(ind + "av = " + c)
            rec(len(lines))
        elif form == "arg":
            lines.append(ind + "puts(%s)" % c)
            rec(len(lines))
        elif form == "if-cond":
            lines.append(ind + "if %s == 1" % c)
            rec(len(lines))
            lines.extend([ind + "  bv = 2", ind + "end"])
        elif form == "elsif-cond":
            lines.append(ind + "if 1 == 2")
            lines.append(ind + "  bv = 2")
            lines.append(ind + "elsif %s == 3" % c)
            rec(len(lines))
            lines.extend([ind + "  bv = 3", ind + "end"])
        elif form == "unless-cond":
            lines.append(ind + "unless %s == 1" % c)
            rec(len(lines))
            lines.extend([ind + "  bv = 2", ind + "end"])
        elif form == "while-cond":
            lines.append(ind + "while %s == 99" % c)
            rec(len(lines))
            lines.extend([ind + "  bv = 2", ind + "end"])
        elif form == "block":
            lines.append(ind + "[1, 2].each do |be|")
            lines.append(ind + "  " + call(kind, callee, "be"))
            rec(len(lines))
            lines.append(ind + "end")
        elif form == "ternary":
            lines.append(ind + "tv = %s == 1 ? 1 : 2" % c)
            rec(len(lines))
        elif form == "eq-rhs-cond":
            # the call is the right hand side of a comparison the narrowing lookahead evaluates
            lines.append(ind + "ev = 1")
            lines.append(ind + "if ev == %s" % c)
            rec(len(lines))
            lines.extend([ind + "  bv = 2", ind + "end"])
        elif form == "same-row-twice":
            lines.append(ind + "sv = [%s, %s]" % (c, call(kind, callee, "2")))
            rec(len(lines), 2)
        elif form == "chain":
            lines.append(ind + "%s.to_s" % c)
            rec(len(lines))
        else:
            lines.append(ind + "nv = %s" % call(kind, callee, call(kind, callee, "2")))
            rec(len(lines), 2)
    if cms:
        lines.append("class %s" % cls)
        for i, m in enumerate(cms):
            lines += ["  def %s(a)" % m]
            if case.get("implicit") and i == 1:
                lines.append("    iv = %s%s(a)" % ("self." if case.get("selfcall") else "", cms[0]))
                exp.setdefault(cms[0], []).append((len(lines), m, cls))
            lines += ["    a", "  end"]
        lines.append("end")
        if case.get("sub"):
            # the receiver is an instance of a subclass: the methods are still Kk's
            lines += ["class Ks < %s" % cls, "  def ks_own", "    1", "  end", "end"]
        lines.append("ko = %s.new" % ("Ks" if case.get("sub") else cls))
    for t in tops:
        lines.append("def %s(q)" % t)
        if cms and case["bodies"].get(t):
            lines.append("  ko = %s.new" % ("Ks" if case.get("sub") else cls))
        for form, kind, callee in case["bodies"].get(t, []):
            emit_site("  ", form, kind, callee, t, "none")
        lines += ["  q", "end"]
    for form, kind, callee in case["bodies"].get("<top>", []):
        emit_site("", form, kind, callee, "top level", "none")
    # make sure every method that has callees is itself called once, so that it is printed
    return "\n".join(lines) + "\n", exp


def parse_nav(text):
    """-> list of sections {title, callers: [(method, class, row)], total_callers, callees: [(method, class)], total_callees}"""
    secs = []
    cur = None
    mode = None
    pend = None
    for l in text.split("\n"):
        if l.startswith("## "):
            cur = {"title": l[3:], "callers": [], "callees": [], "total_callers": None, "total_callees": None}
            secs.append(cur)
            mode = None
        elif cur is None:
            continue
        elif l.startswith("- callers"):
            mode = "callers"
        elif l.startswith("- callees"):
            mode = "callees"
        elif l.strip().startswith("- method:"):
            pend = {"method": l.split(":", 1)[1].strip()}
        elif l.strip().startswith("- class:") and pend is not None:
            pend["class"] = l.split(":", 1)[1].strip()
            if mode == "callees":
                cur["callees"].append((pend["method"], pend["class"]))
        elif l.strip().startswith("- call point:") and pend is not None:
            m = re.search(r":(\d+)$", l.strip())
            cur["callers"].append((pend["method"], pend.get("class"), int(m.group(1)) if m else -1))
        elif l.strip().startswith("- total callers:"):
            cur["total_callers"] = int(l.split(":")[1])
        elif l.strip().startswith("- total callees:"):
            cur["total_callees"] = int(l.split(":")[1])
    return secs


class Check(Prop):
    ID = "C24"
    RULE = ("cases = generated programs with 2-4 top-level methods and optionally a class with 1-2 instance methods, each method body and "
            "the top level holding 0-5 call sites of known shape: statement, assignment, argument of another call, if / elsif / unless / "
            "while condition, inside a block, ternary condition, receiver of a chained call, nested as an argument of itself (two sites on "
            "one row), instance calls through a local `ko = Kk.new`, optionally an implicit-receiver call between two instance methods. "
            "Oracle for `--llm-nav --target=<name>` of every method with >= 1 call site: the caller entries, as a multiset of (row, "
            "enclosing method, class), equal the model; `total callers` equals the number of call sites; every listed callee is a call "
            "written in that method's body. Non-trivial = a method with >= 2 call sites or a site in a condition/block/argument; distinct "
            "by SHA-1(program).")
    ASSUMPTIONS = (
        "method names are unique in the program, so one section is expected per target",
        "crashing/hanging runs are discarded here and counted",
    )
    BUDGET = {"quick": 700, "thorough": 10000}
    WALL = {"quick": 150, "thorough": 1500}

    def strategy(self):
        return call_graph_program()

    def sample(self, case):
        return {"program": render(case)[0]}

    def evaluate(self, case, rt):
        src, exp = render(case)
        key = run.sha(src)
        labels = sorted({"form:" + f for sites in case["bodies"].values() for f, _, _ in sites}) + (["implicit-receiver"] if case.get("implicit") else [])
        nontrivial = any(len(v) >= 2 for v in exp.values()) or any(f not in ("stmt",) for sites in case["bodies"].values() for f, _, _ in sites)
        sb = rt.sandbox()
        fn = sb.write(src)
        try:
            written = {}
            for caller, sites in case["bodies"].items():
                written[caller if caller != "<top>" else "top level"] = {c for _, _, c in sites}
            if case.get("implicit"):
                written[case["cms"][1]] = {case["cms"][0]}
            for name in sorted(exp):
                o = rt.runner.run(sb, fn, ["--llm-nav", "--target=%s" % name])
                if o.kind != "ok":
                    return Verdict(None, labels, False, key, discard="crash" if o.kind == "crash" else "hang")
                secs = [s for s in parse_nav(o.out) if re.match(r"(\w+\.)?%s\(" % re.escape(name), s["title"])]
                want = sorted((r, m, c) for r, m, c in exp[name])
                forms = sorted({f for sites in case["bodies"].values() for f, _, c in sites if c == name})
                info = {"target": name, "forms": forms, "implicit_target": bool(case.get("implicit") and name == case["cms"][0]), "program": meta.with_rows(src)}
                if len(secs) != 1:
                    return Verdict(dict(info, what="--llm-nav --target=%s: expected one section, got %d (%s call sites in the source)" % (name, len(secs), len(want)),
                                        kind="section"), labels + ["mismatch"], nontrivial, key)
                s = secs[0]
                got = sorted((r, m, c if c else "none") for m, c, r in s["callers"])
                if got != want:
                    missing = [x for x in want if x not in got]
                    extra = [x for x in got if x not in want]
                    dup = [x for x in set(got) if got.count(x) > want.count(x)]
                    return Verdict(dict(info, what="--llm-nav --target=%s: caller entries differ: missing %s, unexpected %s" % (name, missing[:4], (extra or dup)[:4]),
                                        kind="callers", missing=[list(x) for x in missing[:6]], extra=[list(x) for x in (extra or dup)[:6]]), labels + ["mismatch"], nontrivial, key)
                if s["total_callers"] != len(want):
                    return Verdict(dict(info, what="--llm-nav --target=%s: total callers %s, source has %d call sites" % (name, s["total_callers"], len(want)),
                                        kind="total"), labels + ["mismatch"], nontrivial, key)
                body = written.get(name, set())
                for cm, cc in s["callees"]:
                    if cm not in body:
                        return Verdict(dict(info, what="--llm-nav --target=%s lists callee %s which its body does not call" % (name, cm), kind="callee"),
                                       labels + ["mismatch"], nontrivial, key)
        finally:
            sb.remove(fn)
        return Verdict(None, labels, nontrivial, key)

    def matchers(self):
        def m_implicit(case, v, params):
            return bool(v.get("implicit_target")) and v.get("kind") in ("callers", "section", "total")
        return {"c24_implicit_receiver_in_class": m_implicit}
