"""C14 — keyword argument order at a call site is irrelevant."""
import itertools
import json
import os

from hypothesis import strategies as st

from .. import meta, run
from ..engine import Prop, Verdict

LIT = {"Int": "1", "String": '"s"', "Float": "1.5", "Symbol": ":a", "NilClass": "nil", "Bool": "true"}
TYPES = ["Int", "String", "Float", "Symbol"]
KEYS = ["ka", "kb", "kc", "kd", "ke"]


def shipped_config(repo):
    d = os.path.join(repo, "test", ".ti-config")
    return {n: open(os.path.join(d, n)).read() for n in sorted(os.listdir(d)) if n.endswith(".json")}


def kw_class(methods):
    """methods: list of dict(name, npos, keys=[(key, type, default)])"""
    cms = []
    for m in methods:
        args = [{"type": ["Int"]} for _ in range(m["npos"])]
        for k, t, dflt in m["keys"]:
            a = {"key": k + ":", "type": [t]}
            if dflt:
                a["is_default"] = True
            args.append(a)
        cms.append({"name": m["name"], "arguments": args, "return_type": {"type": [m.get("ret", "Int")]}})
    return json.dumps({"frame": "Builtin", "class": "Kwx", "instance_methods": [], "class_methods": cms}, indent=1)


class Check(Prop):
    ID = "C14"
    RULE = ("cases = one call site with 2-5 keyword arguments against (a) a user-defined method with required/defaulted keyword "
            "parameters (and 0-2 positionals), optionally a **opts keyword rest whose hash is read in the body (values, lookup, keys), (b) a class method of a generated configured class Kwx (required and is_default keyword "
            "arguments, appended to the shipped configuration), (c) the shipped Test.keyword_json_test*. The call may omit required keys, "
            "pass unknown keys and wrong value types. Oracle: `ti -i` output is byte-identical for every permutation of the keyword "
            "arguments (all permutations up to 4 keys, 12 sampled for 5). Non-trivial = >= 2 keyword arguments at the call; labels: "
            "all-valid / missing / unknown / mismatch; distinct by SHA-1(program template).")
    ASSUMPTIONS = (
        "one call site per program, so inference order cannot differ between permutations",
        "crashing/hanging runs are discarded here and counted",
    )
    BUDGET = {"quick": 500, "thorough": 8000}
    WALL = {"quick": 150, "thorough": 1500}

    def __init__(self, *a):
        Prop.__init__(self, *a)
        self.shipped = shipped_config(self.repo)

    def explicit(self):
        # shipped keyword methods
        for callee, keys in (("Test.keyword_json_test", ["name", "zz"]), ("Test.keyword_json_test2", ["name", "zz", "zy"])):
            for vals in (["1", "2", "3"], ['"s"', "1", ":x"], ["nil", "1.5", "2"]):
                kws = ["%s: %s" % (k, v) for k, v in zip(keys, vals)]
                yield {"pre": "", "callee": callee, "pos": [], "kws": kws, "cfg": None, "origin": "shipped"}

    def strategy(self):
        @st.composite
        def case(draw):
            nk = draw(st.integers(2, 5))
            keys = draw(st.sampled_from([KEYS, ["k1", "k10", "k2", "k20", "k"], ["x", "x2", "x_y", "xa", "x1"]]))[:nk]
            decl = [(k, draw(st.sampled_from(TYPES)), draw(st.booleans())) for k in keys]
            npos = draw(st.integers(0, 2))
            user = draw(st.booleans())
            used = [k for k in keys if draw(st.integers(0, 9)) < 8]
            if draw(st.integers(0, 9)) < 3:
                used.append("zz")
            if draw(st.integers(0, 19)) == 0:
                used.append("zy")
            if len(used) < 2:
                used = keys[:2]
            types = dict((k, t) for k, t, _ in decl)
            kws = []
            for k in used:
                t = types.get(k, "Int")
                if draw(st.integers(0, 9)) < 2:
                    t = draw(st.sampled_from(TYPES + ["NilClass"]))
                kws.append("%s: %s" % (k, LIT[t]))
            pos = ["1"] * npos
            if draw(st.integers(0, 14)) == 0 and npos:
                pos = pos[:-1]
            if user:
                if draw(st.integers(0, 3)) == 0:
                    # keyword rest: the method sees the keywords as a hash; order-sensitive reads of it must not depend on call order
                    ndecl = draw(st.integers(0, max(0, nk - 2)))
                    params = ["p%d" % i for i in range(npos)] + ["%s:%s" % (k, (" " + LIT[t]) if dflt else "") for k, t, dflt in decl[:ndecl]] + ["**opts"]
                    reads = draw(st.sampled_from([["opts.values"], ["opts[:%s]" % keys[-1]], ["dbtp opts.values", "dbtp opts[:%s]" % keys[0], "opts"],
                                                  ["ov = opts.values", "ov"], ["opts.keys"]]))
                    pre = "def um(%s)\n%s\nend\n" % (", ".join(params), "\n".join("  " + r for r in reads))
                    return {"pre": pre, "callee": "um", "pos": pos, "kws": kws, "cfg": None, "kwrest": True}
                params = ["p%d" % i for i in range(npos)] + ["%s:%s" % (k, (" " + LIT[t]) if dflt else "") for k, t, dflt in decl]
                body = "  " + (decl[0][0] if draw(st.booleans()) else "1")
                pre = "def um(%s)\n%s\nend\n" % (", ".join(params), body)
                return {"pre": pre, "callee": "um", "pos": pos, "kws": kws, "cfg": None}
            cfg = kw_class([{"name": "km", "npos": npos, "keys": decl}])
            return {"pre": "", "callee": "Kwx.km", "pos": pos, "kws": kws, "cfg": cfg}
        return case()

    def sample(self, case):
        return {"program": self.render(case, case["kws"]), "config_extra": case.get("cfg")}

    @staticmethod
    def render(case, kws):
        return case["pre"] + "r = %s(%s)\ndbtp r\n" % (case["callee"], ", ".join(case["pos"] + list(kws)))

    def evaluate(self, case, rt):
        kws = case["kws"]
        key = run.sha(case["pre"], case["callee"], ",".join(case["pos"]), ",".join(sorted(kws)), case.get("cfg") or "")
        labels = (["kwrest"] if case.get("kwrest") else []) + ["user" if case["callee"] == "um" else ("shipped" if case.get("origin") == "shipped" else "configured"), "nkw:%d" % len(kws)]
        if any(k.startswith(("zz", "zy")) for k in kws):
            labels.append("unknown-key")
        config = "shipped"
        if case.get("cfg"):
            config = dict(self.shipped)
            config["zz_kwx.json"] = case["cfg"]
        perms = list(itertools.permutations(kws))
        if len(perms) > 24:
            # deterministic sample: identity, reverse, rotations, and a stride through the rest
            step = max(1, len(perms) // 10)
            perms = [perms[0], perms[-1]] + perms[1::step][:10]
        outs = {}
        try:
            for perm in perms:
                recs = meta.analyse(rt, self.render(case, perm), ["-i"], config=config)
                outs.setdefault(tuple(sorted(recs)), perm)
        except meta.Discard as d:
            return meta.discard_verdict(d, labels, key)
        base = next(iter(outs))
        if any(k == "E" and ("mismatch" in t or "expected" in t) for k, r, t in base):
            labels.append("mismatch")
        elif any(k == "E" and "dbtp" not in t and not t[:1].isupper() for k, r, t in base):
            labels.append("other-diagnostic")
        else:
            labels.append("all-valid")
        nontrivial = len(kws) >= 2
        if len(outs) == 1:
            return Verdict(None, labels, nontrivial, key)
        (o1, p1), (o2, p2) = list(outs.items())[:2]
        d = meta.diff(list(o1), list(o2))
        return Verdict({"what": "keyword order changes the output: %s vs %s: %s" % (list(p1), list(p2), d), "diff": d,
                        "program_1": self.render(case, p1), "program_2": self.render(case, p2)}, labels + ["diverge"], nontrivial, key)
