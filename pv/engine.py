"""Hypothesis-driven engine: seeding, sharding over processes, known findings, shrinking, replay files."""
import hashlib
import importlib
import json
import multiprocessing as mp
import os
import sys
import time
import traceback

from . import build as buildmod
from . import run as runmod
from . import findings as findingsmod

VERIF = buildmod.VERIF


class Verdict:
    """Result of evaluating one case.

    violation: None or a JSON-able dict describing the mismatch (must contain 'what').
    discard:   None | 'crash' | 'hang' | 'precondition' | 'load' (case not judged)
    """
    __slots__ = ("violation", "labels", "nontrivial", "key", "discard", "extra")

    def __init__(self, violation=None, labels=(), nontrivial=False, key=None, discard=None, extra=None):
        self.violation = violation
        self.labels = tuple(labels)
        self.nontrivial = nontrivial
        self.key = key
        self.discard = discard
        self.extra = extra


class ViolationError(Exception):
    def __init__(self, case, violation):
        Exception.__init__(self, violation.get("what", "violation"))
        self.case = case
        self.violation = violation


class RT:
    """Per-worker runtime handed to Prop.evaluate: runner + sandbox management."""

    def __init__(self, bins, repo, backend="inproc", timeout=2.0, parity_every=50):
        self.bins = bins
        self.repo = repo
        self.runner = runmod.Runner(bins, backend=backend, timeout=timeout, parity_every=parity_every)
        self._shipped = None
        self._cfg = {}      # hash -> Sandbox (small LRU)
        self._order = []
        self.root = runmod.tmp_root()

    @property
    def backend(self):
        return self.runner.backend

    def sandbox(self, config="shipped"):
        if config == "shipped":
            if self._shipped is None:
                self._shipped = runmod.Sandbox(self.repo, "shipped", root=self.root)
            return self._shipped
        if isinstance(config, str):
            key = "dir:" + config
        else:
            key = runmod.sha(json.dumps(config, sort_keys=True))
        sb = self._cfg.get(key)
        if sb is None:
            sb = runmod.Sandbox(self.repo, config, root=self.root)
            self._cfg[key] = sb
            self._order.append(key)
            while len(self._order) > 8:
                old = self._order.pop(0)
                self._cfg.pop(old).close()
        return sb

    def fresh_sandbox(self, config="shipped", loader=None):
        return runmod.Sandbox(self.repo, config, root=self.root, loader=loader)

    def run_src(self, src, flags=(), config="shipped", latin1=False, snap=False, keep=False, name=None, blackbox=False):
        """Write src as a new file in the sandbox of `config`, analyse it, remove it.

        Returns (Outcome, file_name_as_passed_to_ti)."""
        sb = self.sandbox(config)
        data = src.encode("latin-1") if latin1 else src
        fn = sb.write(data, name=name)
        try:
            o = self.runner.run(sb, fn, flags, snap=snap, force_blackbox=blackbox)
        finally:
            if not keep:
                sb.remove(fn)
        return o, fn

    def close(self):
        self.runner.close()
        if self._shipped:
            self._shipped.close()
        for sb in self._cfg.values():
            sb.close()
        self._cfg = {}


class Prop:
    """Base class of a property module's `Check`."""
    ID = "C00"
    TITLE = ""
    RULE = ""
    ASSUMPTIONS = ()
    WANT = ("ti", "server")
    SHARDS = 6
    BUDGET = {"quick": 300, "thorough": 3000}       # generated cases (all shards together)
    WALL = {"quick": 150, "thorough": 1500}          # seconds, cap per tier
    SERVER_TIMEOUT = 2.0
    MIN_NONTRIVIAL = 2

    def __init__(self, repo, bins, tier, seed):
        self.repo = repo
        self.bins = bins
        self.tier = tier
        self.seed = seed

    # -- to override
    def strategy(self):
        raise NotImplementedError

    def explicit(self):
        """Enumerated (seed-independent) cases run before the generated ones."""
        return []

    def evaluate(self, case, rt):
        raise NotImplementedError

    def matchers(self):
        """name -> callable(case, violation, params) -> bool"""
        return {}

    def sample(self, case):
        return case


def _jsonable(x):
    try:
        json.dumps(x)
        return x
    except (TypeError, ValueError):
        return repr(x)


class Stats:
    def __init__(self):
        self.evaluations = 0
        self.generated = 0
        self.explicit = 0
        self.keys = set()
        self.labels = {}
        self.discarded = {}
        self.discard_samples = []
        self.known = {}
        self.known_examples = {}
        self.inproc_only = 0
        self.samples = []
        self.infra = None
        self.budget_exhausted = False
        self.failure = None
        self.runner = {}
        self.parity_mismatch = []
        self.parity_checked = 0
        self.stale = []
        self.witness_ok = []

    def to_dict(self):
        d = dict(self.__dict__)
        d["keys"] = list(self.keys)
        return d


def _match_known(prop, entries, case, violation):
    ms = prop.matchers()
    for e in entries:
        f = ms.get(e.get("matcher"))
        if f is None:
            continue
        try:
            if f(case, violation, e.get("params") or {}):
                return e
        except Exception:
            continue
    return None


def _worker(prop_id, tier, seed, k, K, repo, conn, replay_case=None):
    stats = Stats()
    rt = rt_bb = None
    try:
        import hypothesis
        from hypothesis import given, settings, HealthCheck, Phase, Verbosity
        mod = importlib.import_module("pv.props." + prop_id.lower())
        bins = buildmod.build(repo, want=mod.Check.WANT, quiet=True)
        prop = mod.Check(repo, bins, tier, seed)
        entries = findingsmod.entries_for(prop_id)
        rt = RT(bins, repo, backend="inproc", timeout=prop.SERVER_TIMEOUT)
        rt_bb = RT(bins, repo, backend="blackbox")
        t0 = time.monotonic()
        wall = float(os.environ.get("VERIF_WALL", prop.WALL[tier]))
        state = {"abort": False}

        def handle(case, generated):
            if state["abort"]:
                return
            if time.monotonic() - t0 > wall:
                stats.budget_exhausted = True
                state["abort"] = True
                return
            try:
                v = prop.evaluate(case, rt)
            except ViolationError:
                raise
            except Exception:
                stats.infra = traceback.format_exc()
                state["abort"] = True
                return
            stats.evaluations += 1
            if generated:
                stats.generated += 1
            else:
                stats.explicit += 1
            if v.discard:
                stats.discarded[v.discard] = stats.discarded.get(v.discard, 0) + 1
                if v.discard in ("crash", "hang") and len(stats.discard_samples) < 3:
                    stats.discard_samples.append({"discard": v.discard, "case": _jsonable(case)})
            for l in v.labels:
                stats.labels[l] = stats.labels.get(l, 0) + 1
            if v.nontrivial and v.key is not None and not v.discard:
                stats.keys.add(v.key)
                if len(stats.samples) < 3:
                    stats.samples.append(_jsonable(prop.sample(case)))
            if v.violation is None:
                return

            def first_unlisted(viol):
                """A case may fail in several ways (violation["also"] = further violation dicts): a listed finding must not hide an
                unlisted one in the same case. Counts the listed ones, returns the first unlisted one (or None)."""
                for one in [viol] + list(viol.get("also") or []):
                    e = _match_known(prop, entries, case, one)
                    if e is None:
                        return one
                    stats.known[e["key"]] = stats.known.get(e["key"], 0) + 1
                    stats.known_examples.setdefault(e["key"], one.get("what", ""))
                return None
            viol = first_unlisted(v.violation)
            if viol is None:
                return
            # confirm on the real binary before believing anything
            if rt.backend == "inproc" and not viol.get("inproc_is_truth"):
                try:
                    v2 = prop.evaluate(case, rt_bb)
                except Exception:
                    stats.infra = traceback.format_exc()
                    state["abort"] = True
                    return
                if v2.violation is None:
                    stats.inproc_only += 1
                    return
                viol = first_unlisted(v2.violation)
                if viol is None:
                    return
            viol = {k_: v_ for k_, v_ in viol.items() if k_ != "also"}
            raise ViolationError(case, viol)

        if replay_case is not None:
            try:
                handle(replay_case, False)
            except ViolationError as ex:
                stats.failure = {"case": _jsonable(ex.case), "violation": _jsonable(ex.violation), "shrunk": False}
            return

        # 0. known-finding witnesses (keep the KNOWN-FINDING lines backed by a live reproduction)
        if k == 0:
            for e in entries:
                w = e.get("witness")
                if not w:
                    continue
                try:
                    wc = json.load(open(os.path.join(VERIF, w)))["case"]
                except Exception:
                    stats.stale.append(e["key"] + ":unreadable-witness")
                    continue
                before = stats.known.get(e["key"], 0)
                try:
                    handle(wc, False)
                except ViolationError as ex:
                    # witness now fails in a way its own matcher does not claim
                    stats.failure = {"case": _jsonable(ex.case), "violation": _jsonable(ex.violation), "shrunk": False}
                    return
                if stats.known.get(e["key"], 0) == before:
                    stats.stale.append(e["key"])
                else:
                    stats.witness_ok.append(e["key"])

        # 1. regression replays (shrunk failures of earlier rounds), then enumerated cases, sharded
        def _regress():
            d = os.path.join(VERIF, "replays", prop_id)
            if os.path.isdir(d):
                for n in sorted(os.listdir(d)):
                    if n.startswith("regress-") and n.endswith(".json"):
                        try:
                            yield json.load(open(os.path.join(d, n)))["case"]
                        except Exception:
                            continue

        try:
            import itertools
            for i, case in enumerate(itertools.chain(_regress(), prop.explicit())):
                if i % K != k:
                    continue
                handle(case, False)
                if state["abort"]:
                    break
        except ViolationError as ex:
            stats.failure = {"case": _jsonable(ex.case), "violation": _jsonable(ex.violation), "shrunk": False}
            return

        # 2. generated cases
        n = int(os.environ.get("VERIF_CASES", prop.BUDGET[tier]))
        per = max(1, n // K)
        hseed = int(hashlib.sha256(("%s:%d:%d" % (prop_id, seed, k)).encode()).hexdigest()[:15], 16)
        last = {}
        shrink_cap = int(os.environ.get("VERIF_SHRINK", 250 if tier == "quick" else 1200))

        @hypothesis.seed(hseed)
        @settings(max_examples=per, database=None, deadline=None, derandomize=False,
                  phases=[Phase.generate, Phase.shrink], suppress_health_check=list(HealthCheck),
                  report_multiple_bugs=False, verbosity=Verbosity.quiet)
        @given(prop.strategy())
        def test(case):
            if "ex" in last:
                last["steps"] = last.get("steps", 0) + 1
                if last["steps"] > shrink_cap:
                    return      # shrink budget used up: every further candidate "passes", Hypothesis stops quickly
            try:
                handle(case, True)
            except ViolationError as ex:
                if "ex" not in last or len(json.dumps(_jsonable(ex.case))) <= len(json.dumps(_jsonable(last["ex"].case))):
                    last["ex"] = ex
                raise

        if not state["abort"]:
            try:
                test()
            except ViolationError as ex:
                ex = last.get("ex", ex)
                stats.failure = {"case": _jsonable(ex.case), "violation": _jsonable(ex.violation), "shrunk": True}
            except Exception:
                if "ex" in last:
                    ex = last["ex"]
                    stats.failure = {"case": _jsonable(ex.case), "violation": _jsonable(ex.violation), "shrunk": True}
                elif stats.infra is None:
                    stats.infra = traceback.format_exc()
    except BaseException:
        stats.infra = traceback.format_exc()
    finally:
        try:
            if rt is not None:
                stats.runner = dict(rt.runner.stats)
                for kk, vv in rt_bb.runner.stats.items():
                    stats.runner["confirm_" + kk] = vv
                stats.parity_mismatch = rt.runner.parity_mismatch
                stats.parity_checked = rt.runner.parity_checked
                rt.close()
                rt_bb.close()
        except Exception:
            pass
        try:
            conn.send(stats.to_dict())
            conn.close()
        except Exception:
            pass


def run_check(prop_id, tier, seed, repo, replay=None):
    """Returns exit code."""
    from . import evidence
    t0 = time.time()
    sys.path.insert(0, VERIF)
    try:
        mod = importlib.import_module("pv.props." + prop_id.lower())
    except ImportError as e:
        print("no such check: %s (%s)" % (prop_id, e))
        return 2
    try:
        bins = buildmod.build(repo, want=mod.Check.WANT)
    except buildmod.BuildError as e:
        print("BUILD-FAILED: %s" % e)
        return 2
    # custom runner (Go harness etc.)
    if hasattr(mod, "run_custom"):
        return mod.run_custom(repo, bins, tier, seed, replay)
    K = 1 if replay else int(os.environ.get("VERIF_SHARDS", mod.Check.SHARDS))
    replay_case = None
    if replay:
        replay_case = json.load(open(replay))["case"]
    ctx = mp.get_context("fork")
    procs = []
    for k in range(K):
        a, b = ctx.Pipe(duplex=False)
        p = ctx.Process(target=_worker, args=(prop_id, tier, seed, k, K, repo, b, replay_case))
        p.start()
        b.close()
        procs.append((p, a))
    results = []
    dead = 0
    for p, a in procs:
        try:
            wall = float(os.environ.get("VERIF_WALL", mod.Check.WALL[tier]))
            if a.poll(wall * 3 + 600):
                results.append(a.recv())
            else:
                dead += 1
        except (EOFError, OSError):
            dead += 1
        p.join(10)
        if p.is_alive():
            p.kill()
    # merge
    tot = Stats()
    failures = []
    for r in results:
        tot.evaluations += r["evaluations"]
        tot.generated += r["generated"]
        tot.explicit += r["explicit"]
        tot.keys |= set(r["keys"])
        for kk, vv in r["labels"].items():
            tot.labels[kk] = tot.labels.get(kk, 0) + vv
        for kk, vv in r["discarded"].items():
            tot.discarded[kk] = tot.discarded.get(kk, 0) + vv
        for kk, vv in r["known"].items():
            tot.known[kk] = tot.known.get(kk, 0) + vv
        for kk, vv in r["known_examples"].items():
            tot.known_examples.setdefault(kk, vv)
        tot.inproc_only += r["inproc_only"]
        tot.samples += r["samples"]
        tot.discard_samples += r.get("discard_samples", [])
        tot.budget_exhausted |= r["budget_exhausted"]
        for kk, vv in r["runner"].items():
            tot.runner[kk] = tot.runner.get(kk, 0) + vv
        tot.parity_mismatch += r["parity_mismatch"]
        tot.parity_checked += r["parity_checked"]
        tot.stale += r["stale"]
        tot.witness_ok += r["witness_ok"]
        if r["infra"] and not tot.infra:
            tot.infra = r["infra"]
        if r["failure"]:
            failures.append(r["failure"])
    # optional second stage owned by the property module (rapid / native fuzz in the Go harness)
    extra = None
    if not replay and not failures and not tot.infra and hasattr(mod, "extra_stage"):
        try:
            extra, xf = mod.extra_stage(repo, bins, tier, seed)
        except Exception:
            extra, xf = None, {"infra": traceback.format_exc()}
        if xf:
            if "infra" in xf:
                tot.infra = xf["infra"]
            else:
                # re-judge the case through the ordinary path (known-finding matching, confirmation)
                a, b = ctx.Pipe(duplex=False)
                p = ctx.Process(target=_worker, args=(prop_id, tier, seed, 0, 1, repo, b, xf["case"]))
                p.start()
                b.close()
                r = a.recv() if a.poll(120) else None
                p.join(10)
                if r and r["failure"]:
                    failures.append(r["failure"])
                elif r and r["known"]:
                    for kk, vv in r["known"].items():
                        tot.known[kk] = tot.known.get(kk, 0) + vv
                else:
                    failures.append(xf)
    entries = findingsmod.entries_for(prop_id)
    for key in sorted(tot.known):
        e = next((x for x in entries if x["key"] == key), {})
        print("KNOWN-FINDING: property=%s %s %s (hits=%d)" % (prop_id, key, e.get("what", tot.known_examples.get(key, "")), tot.known[key]))
    code = 0
    replay_paths = []
    if failures and not replay:
        failures.sort(key=lambda f: len(json.dumps(f["case"])))
        f = failures[0]
        d = os.path.join(VERIF, "replays", prop_id)
        os.makedirs(d, exist_ok=True)
        blob = json.dumps({"property": prop_id, "tier": tier, "seed": seed, "case": f["case"], "violation": f["violation"]},
                          indent=1, sort_keys=True)
        path = os.path.join(d, "fail-%s.json" % hashlib.sha1(blob.encode()).hexdigest()[:12])
        with open(path, "w") as fh:
            fh.write(blob + "\n")
        replay_paths.append(path)
    if failures:
        f = failures[0]
        print("violation: %s" % json.dumps(f["violation"])[:3000])
        print("VIOLATION property=%s replay=%s" % (prop_id, replay_paths[0] if replay_paths else replay))
        code = 1
    infra = None
    if dead:
        infra = "%d worker(s) died" % dead
    if tot.infra:
        infra = tot.infra
    if replay:
        if infra:
            print("INFRA: " + infra)
            return 2
        return code
    nontrivial = len(tot.keys)
    if code == 0 and not infra and nontrivial < mod.Check.MIN_NONTRIVIAL and not tot.budget_exhausted:
        infra = "generator degenerate: %d non-trivial cases" % nontrivial
    cov = {
        "evaluations": tot.evaluations,
        "distinct_nontrivial": nontrivial,
        "rule": mod.Check.RULE,
        "samples": tot.samples[:6],
        "generated_cases": tot.generated,
        "enumerated_cases": tot.explicit,
        "labels": dict(sorted(tot.labels.items())),
        "discarded": tot.discarded,
        "discard_samples": tot.discard_samples[:6],
        "known_findings_hit": tot.known,
        "known_finding_witnesses_reproduced": sorted(set(tot.witness_ok)),
        "stale_known_finding": sorted(set(tot.stale)),
        "inproc_only_dropped": tot.inproc_only,
        "ti_runs": tot.runner,
        "parity_checked": tot.parity_checked,
        "parity_mismatch": tot.parity_mismatch[:5],
        "shards": K,
        "tree_hash": bins.hash,
        "budget_exhausted": tot.budget_exhausted,
    }
    if extra is not None:
        cov["second_stage"] = extra
    if infra:
        cov["infrastructure_problem"] = infra[-2000:]
    try:
        evidence.write(prop_id, tier, seed, cov, list(mod.Check.ASSUMPTIONS), time.time() - t0, len(failures))
    except Exception as e:
        print("EVIDENCE-INVALID: %s" % e)
        if code == 0:
            code = 2
    print("%s tier=%s seed=%d evaluations=%d nontrivial=%d known=%s discarded=%s wall=%.1fs%s" % (
        prop_id, tier, seed, tot.evaluations, nontrivial, tot.known, tot.discarded, time.time() - t0,
        " BUDGET-EXHAUSTED" if tot.budget_exhausted else ""))
    if infra and code == 0:
        print("INFRA: " + infra)
        code = 2
    return code
