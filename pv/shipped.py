"""Call sites against every method of the shipped test configuration (test/.ti-config), with right and wrong argument lists.

Used by C01/C02 (robustness of the configured-call paths: conditional returns, overload selection, block handling) — no oracle
about the reported types here, only the program text.
"""
import glob
import json
import os

LITERAL = {"Integer": "1", "Float": "1.5", "String": '"s"', "Symbol": ":a", "Array": "[1, 2]", "Hash": '{a: 1, b: "s"}', "Range": "(1..3)",
           "NilClass": "nil", "TrueClass": "true", "FalseClass": "false", "Bool": "true", "Proc": "->(pz) { pz }", "Object": "Object.new",
           "Kernel": "Object.new", "Comparable": "1", "Enumerable": "[1]"}
ARG_SETS = [
    [], ["1"], ["1", "2"], ["1", "2", "3"], ["1", "2", "3", "4"],
    ['"s"'], ['"s"', ":a"], ["nil"], ["[1]", "{a: 1}"], ["1.5", "nil", '"s"'],
    ["n: 1"], ["n: 1", "m: 2"], ["1", "k: 2"], ["*[1, 2]"], ["**{a: 1}"],
]
RESERVED = set("alias and begin break case class def defined? do else elsif end ensure false for if in module next nil not or redo rescue retry return self "
               "super then true undef unless until when while yield __method__ loop".split())
BLOCKS = ["", "", "", " { |bz| bz }", " { |bz, by| by }", " do |bz|\n  bz\nend", " { }"]


def methods(repo):
    """[(frame, class, name, is_static)] for every configured method, in file/name order."""
    cfg = os.path.join(repo, "test", ".ti-config")
    out = []
    for f in sorted(glob.glob(cfg + "/*.json")):
        try:
            d = json.load(open(f))
        except ValueError:
            continue
        for k in (d if isinstance(d, list) else [d]):
            if not isinstance(k, dict) or "class" not in k:
                continue
            for m in k.get("instance_methods") or []:
                if isinstance(m, dict) and m.get("name"):
                    out.append((k.get("frame") or "Builtin", k["class"], m["name"], False))
            for m in k.get("class_methods") or []:
                if isinstance(m, dict) and m.get("name"):
                    out.append((k.get("frame") or "Builtin", k["class"], m["name"], True))
    return out


def qualified(frame, cls):
    if frame in ("", "Builtin") or not cls:
        return cls or "Object"
    f = frame[len("Builtin::"):] if frame.startswith("Builtin::") else frame
    return f + "::" + cls


def receiver(frame, cls, static):
    q = qualified(frame, cls)
    if static:
        return q
    if frame == "Builtin" and cls in LITERAL:
        return LITERAL[cls]
    if cls == "":
        return None            # top-level function
    return q + ".new"


def call_text(recv, name, args, block):
    a = ", ".join(args)
    if recv is None:
        if name in RESERVED:
            # `class()` is not a call in Ruby: a method whose name is a keyword needs a receiver
            return "self.%s(%s)%s" % (name, a, block)
        return "%s(%s)%s" % (name, a, block)
    if not name[:1].isalpha() and name[:1] != "_":
        # operator method: binary form for one argument, explicit send form otherwise
        if name in ("[]", "[]="):
            return "%s[%s]%s" % (recv, a, block) if name == "[]" else "%s[%s] = 0" % (recv, a or "0")
        if len(args) == 1 and not block and not args[0].startswith(("&", "*")) and ": " not in args[0]:
            return "%s %s %s" % (recv, name, args[0])
        return "%s.%s(%s)%s" % (recv, name, a, block)
    return "%s.%s(%s)%s" % (recv, name, a, block)


def call_line(m, args, block="", via_var=True, k=0):
    frame, cls, name, static = m
    recv = receiver(frame, cls, static)
    if recv is not None and via_var and not static:
        return ["rz%d = %s" % (k, recv), "vz%d = %s" % (k, call_text("rz%d" % k, name, args, block))]
    return ["vz%d = %s" % (k, call_text(recv, name, args, block))]


def param_line(m, args, block="", k=0):
    """The call inside a user method whose parameter becomes typed by a call site (receiver type arrives through inference)."""
    frame, cls, name, static = m
    recv = receiver(frame, cls, static)
    if recv is None or static:
        return call_line(m, args, block, k=k)
    return ["def fz%d(pz)" % k, "  " + call_text("pz", name, args, block).replace("\n", "\n  "), "end", "fz%d(%s)" % (k, recv)]


def enumerated_programs(repo, per_program=8):
    """Deterministic sweep: every configured method with every argument set; block and indirection vary with the index."""
    ms = methods(repo)
    lines = []
    n = 0
    i = 0
    for mi, m in enumerate(ms):
        for ai, args in enumerate(ARG_SETS):
            block = BLOCKS[(mi + ai) % len(BLOCKS)]
            if (mi + ai) % 5 == 4:
                lines += param_line(m, args, block, k=i)
            else:
                lines += call_line(m, args, block, via_var=(mi + ai) % 2 == 0, k=i)
            i += 1
            n += 1
            if n == per_program:
                yield "\n".join(lines) + "\n"
                lines = []
                n = 0
    if lines:
        yield "\n".join(lines) + "\n"


def strategy(repo, prefix=None, max_calls=6):
    """Programs of 1..max_calls calls. With `prefix` every identifier the program introduces starts with it (C11 fragments)."""
    from hypothesis import strategies as st
    import re as _re
    ms = methods(repo)
    lits = ["1", "2", '"s"', ":a", "nil", "1.5", "[1]", "[]", "{a: 1}", "{}", "(1..2)", "true", "n: 1", "m: \"s\"", "*[1]", "**{a: 1}", "&:to_s", "-1", "0"]

    @st.composite
    def prog(draw):
        out = []
        for k in range(draw(st.integers(1, max_calls))):
            m = ms[draw(st.integers(0, len(ms) - 1))]
            args = draw(st.lists(st.sampled_from(lits), min_size=0, max_size=4))
            block = draw(st.sampled_from(BLOCKS))
            if not prefix and draw(st.integers(0, 3)) == 0:
                out += param_line(m, args, block, k=k)
            else:
                out += call_line(m, args, block, via_var=draw(st.booleans()), k=k)
        text = "\n".join(out)
        if prefix:
            text = _re.sub(r"\b(rz|vz|fz)(\d+)\b", lambda m_: "%s%s%s" % (prefix, m_.group(1), m_.group(2)), text)
            text = _re.sub(r"\b(pz|bz|by)\b", lambda m_: prefix + m_.group(1), text)
            return text + "\n"
        return text + ("\n" if draw(st.integers(0, 9)) else "")
    return prog()
