"""ti-config model: abstract configurations, Hypothesis generator, renderers (notations, splitting, ordering) and the
reference call semantics used by C07/C08/C09 (independent of ti's own loader).

Abstract configuration (JSON-able):
  {"classes": [ {"frame": "Builtin", "class": "Alpha", "extends": ["Beta"],
                 "imethods": [decl...], "cmethods": [decl...]} ... ]}
  decl = {"name": str, "args": [arg...], "ret": [typename...], "block": [typename...]}
  arg  = {"types": [typename...], "key": None | "ka", "default": bool, "rest": bool}
Type names are the long-notation names of docs/ti-config.md (Int, String, Float, Symbol, Bool, NilClass, Untyped, class names,
Self, Unify, OptionalUnify, Argument, SelfArray, KeyValueArray).
"""
import json

from hypothesis import strategies as st

PRIMS = {"Int": "Integer", "String": "String", "Float": "Float", "Symbol": "Symbol", "Bool": "Bool", "NilClass": "NilClass"}
LITS = {"Integer": "1", "String": '"s"', "Float": "1.5", "Symbol": ":a", "Bool": "true", "NilClass": "nil"}
CLASS_POOL = ["Alpha", "Beta", "Gamma", "Delta"]


def cls_of(tn):
    return PRIMS.get(tn, tn)


def lit(c):
    return LITS[c] if c in LITS else c + ".new"


# ------------------------------------------------------------------ generator

@st.composite
def gen_type(draw, classes, allow_untyped=True, max_union=3, arrays=False):
    r = draw(st.integers(0, 99))
    if r < 8 and allow_untyped:
        return ["Untyped"]
    if arrays and r < 20:
        return [draw(st.sampled_from(["IntArray", "StringArray", "FloatArray"]))]
    pool = list(PRIMS) + list(classes)
    k = 1 if r < 65 else draw(st.integers(2, max_union))
    idx = draw(st.lists(st.integers(0, len(pool) - 1), min_size=k, max_size=k, unique=True))
    return [pool[i] for i in idx]


@st.composite
def gen_decl(draw, name, classes, keywords=True, rest=True, untyped_ret=False, arrays=False):
    args = []
    seen_default = False
    for _ in range(draw(st.sampled_from([0, 1, 1, 2, 2, 3]))):
        a = {"types": draw(gen_type(classes, arrays=arrays)), "key": None, "default": False, "rest": False}
        if seen_default or draw(st.integers(0, 4)) == 0:
            a["default"] = True
            seen_default = True
        args.append(a)
    if rest and draw(st.integers(0, 7 if rest is True else rest)) == 0:
        args.append({"types": draw(gen_type(classes)), "key": None, "default": False, "rest": True})
        if draw(st.integers(0, 2)) == 0:
            # trailing required positional after the rest parameter
            args.append({"types": draw(gen_type(classes, allow_untyped=False)), "key": None, "default": False, "rest": False})
    if keywords:
        nk = draw(st.sampled_from([0, 0, 0, 1, 2]))
        # name pools: in the second and third one the order of the names with and without their colon differs ("k10:" < "k1:")
        pool = draw(st.sampled_from([["ka", "kb", "kc"], ["k1", "k10", "k2"], ["x", "x2", "x_y"], ["kb", "ka", "kB"]]))
        for kname in pool[:nk]:
            args.append({"types": draw(gen_type(classes)), "key": kname, "default": draw(st.booleans()), "rest": False})
    ret = draw(gen_type(classes, allow_untyped=untyped_ret, arrays=arrays))
    if arrays and draw(st.integers(0, 5)) == 0:
        ret = [draw(st.sampled_from(["Int", "String", "Float"])), "NilClass"]
    k = draw(st.integers(0, 19))
    if k in (0, 1):
        ret = ["Self"]
    elif k == 2:
        # Self as member of a union: resolved per receiver, never stored back into the declaration
        ret = ["Self", draw(st.sampled_from(["NilClass", "Int", "String"]))]
    d = {"name": name, "args": args, "ret": ret, "block": []}
    if draw(st.integers(0, 7)) == 0:
        # the call rebinds its receiver to the result (is_destructive): a flag that sits next to the return type notation
        d["destructive"] = True
    return d


@st.composite
def gen_config(draw, nclasses=None, overloads=True, extends=True, keywords=True, rest=True, untyped_ret=False, arrays=False):
    n = nclasses or draw(st.integers(2, 4))
    classes = CLASS_POOL[:n]
    out = []
    for i, c in enumerate(classes):
        ims = []
        for j in range(draw(st.integers(1, 3))):
            name = "m%d" % j if draw(st.integers(0, 3)) else "%s%d" % (c[0].lower(), j)
            has_overload = overloads and draw(st.integers(0, 4)) == 0
            # overload sets get rest parameters more often (a rest-bound overload next to a fixed-arity one is the interesting shape)
            if has_overload and draw(st.integers(0, 3)) == 0:
                # overloads told apart by their count alone (plain required positionals): their load order cannot matter
                k1, k2 = draw(st.sampled_from([(0, 1), (1, 2), (2, 1), (1, 3), (2, 0)]))
                for kk in (k1, k2):
                    ims.append({"name": name, "args": [{"types": draw(gen_type(classes, allow_untyped=False)), "key": None, "default": False, "rest": False}
                                                       for _ in range(kk)], "ret": draw(gen_type(classes, allow_untyped=False)), "block": []})
                continue
            if has_overload and rest and draw(st.integers(0, 2)) == 0:
                # a rest-bound overload of one element type followed by a fixed-arity overload of another type: a call with one
                # argument too many for the second is rejected by both (state of the first attempt must not reach the second)
                ta, tb = draw(st.sampled_from([("Int", "String"), ("String", "Int"), ("Symbol", "Float"), ("Float", "Symbol")]))
                k = draw(st.integers(1, 2))
                r0 = draw(gen_type(classes, allow_untyped=False))
                ims.append({"name": name, "args": [{"types": [ta], "key": None, "default": False, "rest": True}], "ret": r0, "block": []})
                ims.append({"name": name, "args": [{"types": [tb], "key": None, "default": False, "rest": False} for _ in range(k)],
                            "ret": draw(gen_type(classes, allow_untyped=False)), "block": []})
                continue
            ims.append(draw(gen_decl(name, classes, keywords, (2 if has_overload and rest else rest), untyped_ret, arrays)))
            if has_overload:
                ims.append(draw(gen_decl(name, classes, keywords, rest, untyped_ret, arrays)))
        if draw(st.integers(0, 1)) == 0:
            # an optional-returning reader and a method that takes exactly that optional: the shape behind `x&.reader` arguments
            t0 = draw(st.sampled_from(["String", "Int", "Float", "Symbol"]))
            ims.append({"name": "sn%d" % i, "args": [], "ret": [t0, "NilClass"], "block": []})
            ims.append({"name": "st%d" % i, "args": [{"types": [t0, "NilClass"], "key": None, "default": False, "rest": False}], "ret": ["Self"], "block": []})
        cms = [{"name": "new", "args": [], "ret": [c], "block": []}]
        if draw(st.integers(0, 2)) == 0:
            cms.append(draw(gen_decl("cm0", classes, keywords, rest, untyped_ret, arrays)))
        ext = []
        if extends and i > 0 and draw(st.integers(0, 2)) == 0:
            ext = [classes[draw(st.integers(0, i - 1))]]
        out.append({"frame": "Builtin", "class": c, "extends": ext, "imethods": ims, "cmethods": cms})
    return {"classes": out}


# ------------------------------------------------------------------ rendering

ARRAY_NAMES = {"IntArray": "[Int]", "StringArray": "[String]", "FloatArray": "[Float]"}
NAMED_DEFAULT = {"String": "DefaultString", "Int": "DefaultInt", "Float": "DefaultFloat", "Bool": "DefaultBool", "Untyped": "DefaultUntyped"}
NAMED_OPTIONAL = {"String": "OptionalString", "Int": "OptionalInt", "Float": "OptionalFloat"}
ALL_FLIPS = ["union", "default", "named_default", "rest", "int", "scalar", "array", "optional", "named_optional"]


def _names(types, notation):
    out = []
    for t in types:
        if "array" in notation and t in ARRAY_NAMES:
            t = ARRAY_NAMES[t]
        if "int" in notation and t == "Int":
            t = "Integer"
        out.append(t)
    return out


def render_arg(a, notation=None):
    """notation: None (long) or a set of flips out of ALL_FLIPS (each flip swaps one documented equivalence)."""
    notation = notation or set()
    types = _names(a["types"], notation)
    d = {}
    single = len(types) == 1
    plain = single and not types[0].startswith("[")
    if "rest" in notation and a["rest"] and plain:
        d["type"] = ["*" + types[0]]
    elif "named_default" in notation and a["default"] and single and not a["rest"] and a["types"][0] in NAMED_DEFAULT:
        d["type"] = [NAMED_DEFAULT[a["types"][0]]]
    elif "default" in notation and a["default"] and plain and not a["rest"]:
        d["type"] = ["?" + types[0]]
    else:
        if "union" in notation and len(types) > 1:
            d["type"] = "|".join(types)
        else:
            d["type"] = types if not ("scalar" in notation and single) else types[0]
        if a["default"]:
            d["is_default"] = True
        if a["rest"]:
            d["is_asterisk"] = True
    if a["key"]:
        d["key"] = a["key"] + ":"
    return d


def render_ret(types, notation=None):
    notation = notation or set()
    raw = list(types)
    types = _names(types, notation)
    if len(raw) == 2 and "NilClass" in raw:
        other = [t for t in raw if t != "NilClass"][0]
        if "named_optional" in notation and other in NAMED_OPTIONAL and raw[1] == "NilClass":
            return {"type": [NAMED_OPTIONAL[other]]}
        if "optional" in notation and raw[1] == "NilClass" and not other.endswith("Array"):
            return {"type": "?" + _names([other], notation)[0]}
    if "union" in notation and len(types) > 1:
        return {"type": "|".join(types)}
    if "scalar" in notation and len(types) == 1:
        return {"type": types[0]}
    return {"type": types}


def render_decl(d, notation=None):
    out = {"name": d["name"], "arguments": [render_arg(a, notation) for a in d["args"]], "return_type": render_ret(d["ret"], notation)}
    if d.get("destructive"):
        out["return_type"]["is_destructive"] = True
    if d.get("block"):
        out["block_parameters"] = list(d["block"])
    return out


def render_class(c, notation=None, imethods=None, cmethods=None, with_extends=True):
    d = {"frame": c["frame"], "class": c["class"],
         "instance_methods": [render_decl(m, notation) for m in (c["imethods"] if imethods is None else imethods)],
         "class_methods": [render_decl(m, notation) for m in (c["cmethods"] if cmethods is None else cmethods)]}
    if with_extends and c.get("extends"):
        d["extends"] = list(c["extends"])
    return d


def render_files(cfg, notation=None, names=None):
    """One file per class, named so that glob order == class order (or `names` if given)."""
    files = {}
    for i, c in enumerate(cfg["classes"]):
        n = names[i] if names else "%02d_%s.json" % (i, c["class"].lower())
        files[n] = json.dumps(render_class(c, notation), indent=1)
    return files


# ------------------------------------------------------------------ reference semantics

class Model:
    def __init__(self, cfg):
        self.classes = {c["class"]: c for c in cfg["classes"]}

    def parent(self, c):
        e = self.classes.get(c, {}).get("extends") or []
        return e[0] if e else None

    def ancestors(self, c):
        out = []
        seen = set()
        while c and c not in seen:
            seen.add(c)
            out.append(c)
            c = self.parent(c)
        return out

    def decls(self, c, m, static=False):
        """Nearest class that declares m wins (with all its overloads)."""
        for k in self.ancestors(c):
            ds = [d for d in self.classes[k]["cmethods" if static else "imethods"] if d["name"] == m]
            if ds:
                return ds
        return []

    def is_subclass(self, c, p):
        return p in self.ancestors(c)

    def accepts(self, a, s):
        """One parameter against a set of possible argument classes: OK / ERR / MAYBE."""
        if "Untyped" in a["types"]:
            return "OK"
        A = {cls_of(t) for t in a["types"]}
        if s <= A:
            return "OK"
        if not (s & A):
            # a subclass instance for a parent-typed parameter is a don't-care
            if any(c in self.classes and any(self.is_subclass(c, p) for p in A if p in self.classes) for c in s):
                return "MAYBE"
            return "ERR"
        return "MAYBE"

    def fits(self, decl, pos, kws):
        """pos: list of sets of classes, kws: dict key -> set of classes.  OK / ERR / MAYBE and the failing reason."""
        args = decl["args"]
        pos_args = [a for a in args if not a["key"]]
        ridx = next((i for i, a in enumerate(pos_args) if a["rest"]), None)
        P = [a for a in (pos_args if ridx is None else pos_args[:ridx])]
        AFTER = [] if ridx is None else pos_args[ridx + 1:]
        R = [] if ridx is None else [pos_args[ridx]]
        K = {a["key"]: a for a in args if a["key"]}
        mn = len([a for a in P if not a["default"]]) + len(AFTER)
        mx = None if R else len(P)
        if len(pos) < mn or (mx is not None and len(pos) > mx):
            return "ERR", "count"
        res = "OK"
        for k, a in K.items():
            if not a["default"] and k not in kws:
                # a missing required keyword is not one of the three failure conditions C07 names (method, count, type):
                # neither "certainly fails" nor "certainly fits" is asserted
                res = "MAYBE"
        if [k for k in kws if k not in K]:
            res = "MAYBE"       # unknown keyword: not covered by the property's three conditions
        if AFTER and any(a["default"] for a in P) and len(pos) < len(P) + len(AFTER):
            return "MAYBE", None    # how defaults and trailing positionals share too few arguments is not modelled
        n_after = len(AFTER)
        for i, s in enumerate(pos):
            if n_after and i >= len(pos) - n_after:
                r = self.accepts(AFTER[i - (len(pos) - n_after)], s)
            elif i < len(P):
                r = self.accepts(P[i], s)
            else:
                r = "MAYBE"     # rest element types: not asserted
            if r == "ERR":
                return "ERR", "type"
            if r == "MAYBE":
                res = "MAYBE"
        for k, s in kws.items():
            if k in K:
                r = self.accepts(K[k], s)
                if r == "ERR":
                    return "ERR", "type"
                if r == "MAYBE":
                    res = "MAYBE"
        return res, None

    def verdict(self, R, m, pos, kws, static=False):
        """R: possible receiver classes. Returns (MUST_ERR|MUST_OK|DONT_CARE, reason, applicable_decls)."""
        per = []
        reasons = set()
        applicable = []
        for c in R:
            ds = self.decls(c, m, static)
            if not ds:
                per.append("NOMETHOD")
                continue
            rs = [self.fits(d, pos, kws) for d in ds]
            oks = [d for d, (r, _) in zip(ds, rs) if r == "OK"]
            if oks:
                per.append("OK")
                applicable.append((c, oks))
            elif all(r == "ERR" for r, _ in rs):
                per.append("ERR")
                reasons |= {why for _, why in rs}
            else:
                per.append("MAYBE")
        if all(p == "NOMETHOD" for p in per):
            return "MUST_ERR", "no-method", []
        if all(p in ("ERR", "NOMETHOD") for p in per):
            return "MUST_ERR", "+".join(sorted(reasons)) or "no-method", []
        if all(p == "OK" for p in per):
            return "MUST_OK", None, applicable
        return "DONT_CARE", None, []

    def return_classes(self, c, decl):
        """Declared return type of decl called on an instance of class c -> set of class names, or None if not modelled."""
        out = set()
        for t in decl["ret"]:
            if t == "Self":
                out.add(c)
            elif t in PRIMS or t in self.classes:
                out.add(cls_of(t))
            else:
                return None
        return out
