"""Helpers shared by the metamorphic checks: analyse a source, compare record multisets under a row mapping."""
import collections

from . import out as outmod
from .engine import Verdict


class Discard(Exception):
    def __init__(self, why, outcome=None):
        Exception.__init__(self, why)
        self.why = why
        self.outcome = outcome


def analyse(rt, src, flags=("-i",), config="shipped", latin1=False, name=None):
    """Run ti on src; returns list of (kind,row,text). Raises Discard on crash/hang (owned by C01/C02)."""
    o, fn = rt.run_src(src, list(flags), config=config, latin1=latin1, name=name)
    if o.kind == "crash":
        raise Discard("crash", o)
    if o.kind in ("timeout", "hard", "dead"):
        raise Discard("hang", o)
    recs, bad = outmod.parse_lines(o.out, fn)
    if bad:
        # a line that is not a record of this file: keep it as an unparsed record so that it takes part in the comparison
        recs = recs + [("?", -1, b.replace(fn, "<file>")) for b in bad]
    return [(k, r, t.replace(fn, "<file>")) for k, r, t in recs]


def diff(expected, got, limit=6):
    ce = collections.Counter(expected)
    cg = collections.Counter(got)
    missing = list((ce - cg).elements())
    extra = list((cg - ce).elements())
    return {"missing": [list(x) for x in sorted(missing)[:limit]], "unexpected": [list(x) for x in sorted(extra)[:limit]],
            "n_missing": len(missing), "n_unexpected": len(extra)}


def same(expected, got):
    return collections.Counter(expected) == collections.Counter(got)


def discard_verdict(d, labels=(), key=None):
    return Verdict(None, list(labels) + ["discard-" + d.why], False, key, discard=d.why)


def with_rows(text):
    return "\n".join("%3d %s" % (i + 1, l) for i, l in enumerate(text.split("\n")))
