"""The golden programs of <repo>/test as a seed corpus, plus conservative syntactic helpers."""
import os
import re

_CMD_RE = re.compile(r'exec\.Command\("\.\./ti",\s*(.*?)\)\s*$', re.M)
_STR_RE = re.compile(r'"((?:[^"\\]|\\.)*)"')


class Program:
    __slots__ = ("name", "text", "flags", "data", "l1")

    def __init__(self, name, data, flags):
        self.name = name
        self.data = data
        self.text = data.decode("utf8", "replace")
        self.l1 = data.decode("latin-1")   # bytes as code points 0..255 (what replay files store)
        self.flags = flags


_cache = {}


def load(repo):
    """All golden invocations: list of Program (one per *_test.go with an existing .rb)."""
    if repo in _cache:
        return _cache[repo]
    d = os.path.join(repo, "test")
    progs = []
    for n in sorted(os.listdir(d)):
        if not n.endswith("_test.go"):
            continue
        try:
            src = open(os.path.join(d, n), encoding="utf8").read()
        except OSError:
            continue
        m = _CMD_RE.search(src)
        if not m:
            continue
        args = _STR_RE.findall(m.group(1))
        if not args:
            continue
        rb = args[0]
        rbp = os.path.join(d, rb)
        if not os.path.exists(rbp):
            continue
        with open(rbp, "rb") as fh:
            data = fh.read()
        progs.append(Program(os.path.basename(rb), data, tuple(args[1:])))
    _cache[repo] = progs
    return progs


def plain(repo):
    """Distinct corpus programs (by file), regardless of flags."""
    seen = set()
    res = []
    for p in load(repo):
        if p.name in seen:
            continue
        seen.add(p.name)
        res.append(p)
    return res


# ------------------------------------------------------------------ conservative syntax helpers

_OPEN_KW = ("class", "module", "def", "if", "unless", "case", "while", "until", "for", "begin")
_KW_RE = re.compile(r"[A-Za-z_][A-Za-z0-9_]*[?!]?|\S")


def _strip_strings(line):
    """Remove simple quoted strings and trailing comments; returns None if the line is suspicious."""
    out = []
    i = 0
    n = len(line)
    while i < n:
        c = line[i]
        if c in "\"'":
            j = i + 1
            while j < n and line[j] != c:
                if line[j] == "\\":
                    j += 1
                j += 1
            if j >= n:
                return None  # unterminated on this line (multi-line string)
            out.append('""')
            i = j + 1
            continue
        if c == "#":
            break
        if c in "`%" and c == "`":
            return None
        out.append(c)
        i += 1
    return "".join(out)


def safe_boundaries(text):
    """Rows r (1-based) such that inserting lines *before* row r is between two statements.

    Returns list of (row, depth) where depth is the block-keyword depth at that point.
    Conservative: gives up (returns []) on heredocs, =begin, %-literals, line continuations,
    multi-line strings or anything it cannot classify.
    """
    lines = text.split("\n")
    if lines and lines[-1] == "":
        lines.pop()
    depth = 0
    bracket = 0
    res = []
    prev_open = False  # previous line ended in an operator / comma / open bracket
    for idx, raw in enumerate(lines):
        if "<<~" in raw or "<<-" in raw or re.search(r"<<[A-Z_]", raw) or raw.startswith("=begin") or "%w" in raw or "%i" in raw or "%q" in raw.lower():
            return []
        s = _strip_strings(raw)
        if s is None:
            return []
        st = s.strip()
        if bracket == 0 and not prev_open:
            res.append((idx + 1, depth))
        if not st:
            continue
        toks = _KW_RE.findall(st)
        # keyword depth
        first = toks[0] if toks else ""
        for k, t in enumerate(toks):
            if t in ("class", "module", "def", "case", "begin") and (k == 0 or toks[k - 1] in ("=", "(", ",", "return")):
                if t == "def" and "=" in toks[k:] and _endless_def(toks[k:]):
                    continue
                depth += 1
            elif t in ("if", "unless", "while", "until", "for") and (k == 0 or toks[k - 1] in ("=", "return", "(")):
                depth += 1
            elif t == "do":
                depth += 1
            elif t == "end" and (k == 0 or toks[k - 1] not in (".", ":")):
                depth -= 1
            elif t in "([{":
                bracket += 1
            elif t in ")]}":
                bracket -= 1
        if depth < 0 or bracket < 0:
            return []
        last = toks[-1] if toks else ""
        prev_open = last in (",", "+", "-", "*", "/", "=", "&&", "||", "|", "&", ".", "\\", "?", ":", "<", ">", "and", "or", "not", "then") or st.endswith(("&&", "||", "&.", "::", "=>", "<<", "=="))
        nxt = lines[idx + 1].strip() if idx + 1 < len(lines) else ""
        if nxt.startswith((".", "&.", "?", ":", "&&", "||", "+", "-", "*", "/")):
            prev_open = True
    if depth != 0 or bracket != 0:
        return []
    return res


def _endless_def(toks):
    # def name(args) = expr   /  def name = expr
    d = 0
    for t in toks[1:]:
        if t == "(":
            d += 1
        elif t == ")":
            d -= 1
        elif t == "=" and d == 0:
            return True
        elif d == 0 and t not in ("self", ".",) and not re.match(r"[A-Za-z_]", t):
            return False
    return False


def top_level_boundaries(text):
    return [r for r, d in safe_boundaries(text) if d == 0]
