"""Read-only access to known_findings.json (never written at run time)."""
import json
import os

from .build import VERIF

PATH = os.path.join(VERIF, "known_findings.json")


def load():
    try:
        with open(PATH) as fh:
            return json.load(fh)
    except FileNotFoundError:
        return {"version": 1, "entries": []}


def entries_for(prop_id):
    """Entries with status 'finding' for one property. 'fixed' entries suppress nothing."""
    return [e for e in load().get("entries", []) if e.get("property") == prop_id and e.get("status") == "finding"]
