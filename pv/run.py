"""Sandboxes and the two execution back ends (in-process server, black-box binary)."""
import fcntl
import hashlib
import os
import re
import resource
import select
import shutil
import signal
import subprocess
import tempfile
import time

AS_LIMIT = 3 << 30


def _lim():
    try:
        resource.setrlimit(resource.RLIMIT_AS, (AS_LIMIT, AS_LIMIT))
    except Exception:
        pass
    try:
        resource.setrlimit(resource.RLIMIT_CORE, (0, 0))
    except Exception:
        pass


def tmp_root():
    base = os.environ.get("VERIF_TMP")
    if not base:
        base = "/dev/shm" if os.path.isdir("/dev/shm") and os.access("/dev/shm", os.W_OK) else tempfile.gettempdir()
    d = os.path.join(base, "verif-%d" % os.getpid())
    os.makedirs(d, exist_ok=True)
    return d


class Outcome:
    __slots__ = ("kind", "out", "detail", "snap", "backend", "status", "stderr")

    def __init__(self, kind, out="", detail="", snap="", backend="", status=0, stderr=""):
        self.kind = kind        # ok | crash | timeout | hard | dead
        self.out = out
        self.detail = detail    # panic text / goroutine dump
        self.snap = snap
        self.backend = backend
        self.status = status
        self.stderr = stderr

    @property
    def ok(self):
        return self.kind == "ok"

    def lines(self):
        return self.out.split("\n")[:-1] if self.out.endswith("\n") else (self.out.split("\n") if self.out else [])

    def __repr__(self):
        return "Outcome(%s,%r,%r)" % (self.kind, self.out[:200], self.detail[:200])


_FRAME_RE = re.compile(r"^(ti/[^\s(]+(?:\(\*?\w+\))?[.\w]*|main\.[\w.]+)\(", re.M)


def panic_site(ps):
    """Innermost ti/ or main. frame below the panic() frame."""
    lines = ps.split("\n")
    seen = False
    for l in lines:
        if l.startswith("panic(") or l.startswith("runtime.panic") or "runtime.sigpanic" in l or l.startswith("runtime.goPanic"):
            seen = True
            continue
        if not seen:
            continue
        m = _FRAME_RE.match(l)
        if m and "verifRunRounds" not in m.group(1):
            return m.group(1)
    for l in lines:
        m = _FRAME_RE.match(l)
        if m and "verif" not in m.group(1).lower():
            return m.group(1)
    return "unknown"


def panic_kind(ps):
    head = ps[:600]
    if "nil pointer dereference" in head:
        return "nil-deref"
    if "index out of range" in head:
        return "index"
    if "slice bounds out of range" in head:
        return "slice-bounds"
    if "interface conversion" in head:
        return "type-assertion"
    if "stack overflow" in head or "goroutine stack exceeds" in ps:
        return "stack-overflow"
    if "out of memory" in head or "cannot allocate memory" in head:
        return "oom"
    return "other"


def hang_frames(dump):
    """ti/ frames of the analysis goroutine in a SIGQUIT dump, innermost first."""
    best = []
    for g in dump.split("\n\n"):
        fr = [m.group(1) for m in _FRAME_RE.finditer(g)]
        if any(f.startswith(("ti/eval", "ti/lexer", "ti/parser", "ti/base")) for f in fr) and len(fr) > len(best):
            best = fr
    return best


class Sandbox:
    """A directory with .ti-config (shipped symlink or generated files) and program files."""
    _n = 0

    def __init__(self, repo, config="shipped", root=None, loader=None):
        Sandbox._n += 1
        self.root = root or tmp_root()
        self.dir = tempfile.mkdtemp(prefix="sb%d-" % Sandbox._n, dir=self.root)
        self.count = 0
        cfgdir = os.path.join(self.dir, ".ti-config")
        if config == "shipped":
            os.symlink(os.path.join(repo, "test", ".ti-config"), cfgdir)
        elif config is None:
            pass
        elif isinstance(config, str):
            os.symlink(config, cfgdir)
        else:
            os.makedirs(cfgdir)
            for name, text in config.items():
                with open(os.path.join(cfgdir, name), "w") as fh:
                    fh.write(text)
        if loader is not None:
            with open(os.path.join(self.dir, ".ti-loader.json"), "w") as fh:
                fh.write(loader)

    def write(self, data, name=None):
        """Write a program under a fresh unique name; returns the file name."""
        self.count += 1
        if name is None:
            name = "t%d.rb" % self.count
        mode = "wb" if isinstance(data, bytes) else "w"
        kw = {} if isinstance(data, bytes) else {"encoding": "utf-8", "errors": "surrogateescape", "newline": ""}
        with open(os.path.join(self.dir, name), mode, **kw) as fh:
            fh.write(data)
        return name

    def remove(self, name):
        try:
            os.unlink(os.path.join(self.dir, name))
        except OSError:
            pass

    def close(self):
        shutil.rmtree(self.dir, ignore_errors=True)


class Server:
    """Client of the guard-on in-process analysis server."""

    def __init__(self, binary, timeout=2.0, errdir=None):
        self.binary = binary
        self.timeout = timeout
        self.pr = None
        self.spawns = 0
        self.requests = 0
        self.errdir = errdir or tmp_root()
        self.errf = None

    def _spawn(self):
        env = dict(os.environ, TI_VERIF_SERVER="1", GOMAXPROCS="2", GOTRACEBACK="all")
        self.errf = tempfile.TemporaryFile(mode="w+", dir=self.errdir)
        self.pr = subprocess.Popen(
            [self.binary, "-test.run", "^TestVerifServer$", "-test.paniconexit0", "-test.timeout", "0"],
            stdin=subprocess.PIPE, stdout=subprocess.PIPE, stderr=self.errf, env=env,
            cwd=self.errdir, preexec_fn=_lim)
        self.spawns += 1

    def _readn(self, n, deadline):
        buf = b""
        fd = self.pr.stdout.fileno()
        while len(buf) < n:
            t = deadline - time.monotonic()
            if t <= 0:
                return None
            r, _, _ = select.select([fd], [], [], t)
            if not r:
                return None
            chunk = os.read(fd, min(n - len(buf), 1 << 16))
            if not chunk:
                return None
            buf += chunk
        return buf

    def _readline(self, deadline):
        buf = b""
        fd = self.pr.stdout.fileno()
        while not buf.endswith(b"\n"):
            t = deadline - time.monotonic()
            if t <= 0:
                return None
            r, _, _ = select.select([fd], [], [], t)
            if not r:
                return None
            c = os.read(fd, 1)
            if not c:
                return None
            buf += c
            if len(buf) > 200:
                return buf
        return buf

    def request(self, sbdir, file, args=(), snap=False, timeout=None):
        if self.pr is None or self.pr.poll() is not None:
            self._spawn()
        for a in (sbdir, file, *args):
            if "\t" in a or "\n" in a:
                raise ValueError("tab/newline in request field")
        line = "\t".join(["SNAP" if snap else "RUN", sbdir, file, *args]) + "\n"
        self.requests += 1
        try:
            self.pr.stdin.write(line.encode())
            self.pr.stdin.flush()
        except (BrokenPipeError, OSError):
            return self._fail()
        deadline = time.monotonic() + (timeout or self.timeout)
        hdr = self._readline(deadline)
        if hdr is None or not hdr.startswith(b"#BEGIN"):
            if hdr is not None and hdr.startswith(b"#ERR"):
                return Outcome("dead", detail=hdr.decode("utf8", "replace"), backend="inproc")
            return self._fail()
        _, n, m, k = hdr.split()
        n, m, k = int(n), int(m), int(k)
        data = self._readn(n + m + k + 5, deadline + 2)
        if data is None:
            return self._fail()
        out = data[:n].decode("utf8", "replace")
        ps = data[n:n + m].decode("utf8", "replace")
        sn = data[n + m:n + m + k].decode("utf8", "replace")
        if ps:
            return Outcome("crash", out, ps, sn, "inproc")
        return Outcome("ok", out, "", sn, "inproc")

    def _fail(self):
        kind = "dead"
        if self.pr.poll() is None:
            kind = "timeout"
            try:
                self.pr.send_signal(signal.SIGQUIT)
                self.pr.wait(3)
            except subprocess.TimeoutExpired:
                self.pr.kill()
                self.pr.wait()
            except OSError:
                pass
        err = ""
        try:
            self.errf.seek(0)
            err = self.errf.read()
            self.errf.close()
        except Exception:
            pass
        self.pr = None
        if kind == "dead" and ("panic:" in err or "fatal error:" in err):
            return Outcome("crash", "", err, "", "inproc")
        return Outcome(kind, "", err, "", "inproc")

    def close(self):
        if self.pr is not None and self.pr.poll() is None:
            try:
                self.pr.stdin.close()
                self.pr.wait(2)
            except Exception:
                try:
                    self.pr.kill()
                    self.pr.wait()
                except Exception:
                    pass
        self.pr = None


_LOAD_LOCK_PATH = None


def _load_lock():
    global _LOAD_LOCK_PATH
    if _LOAD_LOCK_PATH is None:
        base = "/dev/shm" if os.path.isdir("/dev/shm") else tempfile.gettempdir()
        _LOAD_LOCK_PATH = os.path.join(base, "verif-load.lock")
    return open(_LOAD_LOCK_PATH, "a+")


def blackbox(ti, sbdir, file, args=(), env_extra=None, hard=6.0):
    """Run the real guard-off binary. Returns Outcome."""
    env = dict(os.environ)
    if env_extra:
        env.update(env_extra)
    try:
        pr = subprocess.Popen([ti, file, *args], cwd=sbdir, stdin=subprocess.DEVNULL, stdout=subprocess.PIPE,
                              stderr=subprocess.PIPE, env=env, preexec_fn=_lim)
    except OSError as e:
        return Outcome("dead", detail=str(e), backend="blackbox")
    try:
        out, err = pr.communicate(timeout=hard)
    except subprocess.TimeoutExpired:
        pr.kill()
        out, err = pr.communicate()
        return Outcome("hard", out.decode("utf8", "replace"), err.decode("utf8", "replace"), "", "blackbox", -9)
    out = out.decode("utf8", "replace")
    err = err.decode("utf8", "replace")
    st = pr.returncode
    if st == 1 and out.endswith("timeout\n") and "panic:" not in err and "fatal error:" not in err:
        return Outcome("timeout", out, err, "", "blackbox", st, err)
    if "panic:" in err or "fatal error:" in err or st != 0:
        if "out of memory" in err or "cannot allocate memory" in err:
            return Outcome("timeout", out, err, "", "blackbox", st, err)
        return Outcome("crash", out, err, "", "blackbox", st, err)
    if err:
        return Outcome("crash", out, err, "", "blackbox", st, err)
    return Outcome("ok", out, "", "", "blackbox", st, err)


def blackbox_hang_dump(ti, sbdir, file, args=()):
    """Re-run and SIGQUIT after 300 ms to learn where a hang spins."""
    env = dict(os.environ, GOTRACEBACK="all")
    pr = subprocess.Popen([ti, file, *args], cwd=sbdir, stdin=subprocess.DEVNULL, stdout=subprocess.DEVNULL,
                          stderr=subprocess.PIPE, env=env, preexec_fn=_lim)
    time.sleep(0.3)
    if pr.poll() is None:
        pr.send_signal(signal.SIGQUIT)
    try:
        _, err = pr.communicate(timeout=5)
    except subprocess.TimeoutExpired:
        pr.kill()
        _, err = pr.communicate()
    return err.decode("utf8", "replace")


class Runner:
    """One interface over both back ends, with parity sampling and believed-hang confirmation."""

    def __init__(self, bins, backend="inproc", parity_every=50, timeout=2.0):
        self.bins = bins
        self.backend = backend
        self.server = Server(bins.server, timeout=timeout) if backend == "inproc" else None
        self.parity_every = parity_every
        self.n = 0
        self.bb_runs = 0
        self.parity_checked = 0
        self.parity_mismatch = []
        self.lock = _load_lock()
        self._slow = None
        self.stats = {"inproc": 0, "blackbox": 0, "hang_candidates": 0, "hang_believed": 0, "inconclusive_load": 0}

    def run(self, sb, file, args=(), snap=False, force_blackbox=False):
        sbdir = sb.dir if isinstance(sb, Sandbox) else sb
        args = tuple(args)
        self.n += 1
        if self.backend == "inproc" and not force_blackbox:
            fcntl.flock(self.lock, fcntl.LOCK_SH)
            try:
                o = self.server.request(sbdir, file, args, snap=snap)
            finally:
                fcntl.flock(self.lock, fcntl.LOCK_UN)
            self.stats["inproc"] += 1
            if o.kind == "timeout":
                self.stats["hang_candidates"] += 1
            elif o.kind == "ok" and self.parity_every and self.n % self.parity_every == 0:
                b = self.bb(sbdir, file, args)
                self.parity_checked += 1
                if b.kind == "ok" and b.out != o.out:
                    # the binary wins: remember and degrade
                    b2 = self.bb(sbdir, file, args)
                    o2 = self.server.request(sbdir, file, args)
                    if b2.kind == "ok" and o2.kind == "ok" and b2.out != o2.out and b2.out == b.out:
                        self.parity_mismatch.append({"file": file, "args": list(args), "inproc": o.out[:300], "blackbox": b.out[:300]})
                        self.backend = "blackbox"
                        return b
            return o
        return self.bb(sbdir, file, args)

    def bb(self, sbdir, file, args=(), env_extra=None):
        fcntl.flock(self.lock, fcntl.LOCK_SH)
        try:
            self.stats["blackbox"] += 1
            return blackbox(self.bins.ti, sbdir, file, args, env_extra)
        finally:
            fcntl.flock(self.lock, fcntl.LOCK_UN)

    def believed_hang(self, sb, file, args=()):
        """True iff the real binary prints `timeout` 3/3 while holding the machine exclusively."""
        sbdir = sb.dir if isinstance(sb, Sandbox) else sb
        fcntl.flock(self.lock, fcntl.LOCK_EX)
        try:
            time.sleep(0.05)
            import resource
            cpu = []
            for _ in range(3):
                self.stats["blackbox"] += 1
                r0 = resource.getrusage(resource.RUSAGE_CHILDREN)
                o = blackbox(self.bins.ti, sbdir, file, args)
                r1 = resource.getrusage(resource.RUSAGE_CHILDREN)
                cpu.append((r1.ru_utime - r0.ru_utime) + (r1.ru_stime - r0.ru_stime))
                if o.kind not in ("timeout", "hard"):
                    self.stats["inconclusive_load"] += 1
                    return False, o
            # the 500 ms watchdog is wall-clock: on a machine loaded by *other* processes a finite, fast analysis can print
            # `timeout` three times. CPU time tells the two apart: an analysis that is still computing when the watchdog fires has
            # burnt most of the 500 ms itself in every run (also when it would finish a second later: the watchdog fires on an idle
            # machine too), one that was merely descheduled has not.
            if min(cpu) >= 0.30:
                self.stats["hang_believed"] += 1
                return True, o
            # little CPU: either load, or a hang that does not spin. A real hang never finishes: give the in-process rounds a
            # generous deadline as a cross-check.
            if os.path.exists(self.bins.server):
                if self._slow is None:
                    self._slow = Server(self.bins.server, timeout=8.0)
                o2 = self._slow.request(sbdir, file, args, timeout=8.0)
                if o2.kind in ("ok", "crash"):
                    self.stats["inconclusive_load"] += 1
                    return False, o
            self.stats["hang_believed"] += 1
            return True, o
        finally:
            fcntl.flock(self.lock, fcntl.LOCK_UN)

    def hang_site(self, sb, file, args=()):
        sbdir = sb.dir if isinstance(sb, Sandbox) else sb
        dump = blackbox_hang_dump(self.bins.ti, sbdir, file, args)
        return hang_frames(dump), dump

    def close(self):
        if self.server:
            self.server.close()
        if self._slow:
            self._slow.close()
        try:
            self.lock.close()
        except Exception:
            pass


def sha(*parts):
    h = hashlib.sha1()
    for p in parts:
        if isinstance(p, str):
            p = p.encode("utf8", "surrogateescape")
        elif not isinstance(p, bytes):
            p = repr(p).encode()
        h.update(p)
        h.update(b"\0")
    return h.hexdigest()
