"""Build ti / converters / guard-on test binary from the tree under --repo.

Everything is rebuilt from the *current working tree*: the cache key is a hash
over the contents of the Go sources, so an edited tree gets a fresh build.
"""
import hashlib
import os
import shutil
import subprocess
import sys
import fcntl

VERIF = os.path.dirname(os.path.dirname(os.path.abspath(__file__)))
BUILD_ROOT = os.path.join(VERIF, ".build")


class BuildError(Exception):
    pass


def go_env():
    env = dict(os.environ)
    env["GOFLAGS"] = "-mod=mod"
    env["GOPROXY"] = "off"
    env["GONOSUMDB"] = "pgregory.net"
    # GOSUMDB / GOTOOLCHAIN deliberately left alone: go.mod says 1.24.5 and the
    # default go auto-switches to the cached toolchain.
    env.pop("GOTOOLCHAIN", None)
    env.pop("GOSUMDB", None)
    return env


def tree_hash(repo):
    h = hashlib.sha1()
    files = []
    for root, dirs, names in os.walk(repo):
        rel = os.path.relpath(root, repo)
        if rel == ".":
            dirs[:] = [d for d in dirs if d not in (".git", "test", "image", "docs", "example", "skills", "shell")]
        for n in names:
            if n.endswith(".go") or n in ("go.mod", "go.sum") or n.endswith(".rb"):
                files.append(os.path.join(root, n))
    files.sort()
    for f in files:
        h.update(os.path.relpath(f, repo).encode())
        h.update(b"\0")
        try:
            with open(f, "rb") as fh:
                h.update(fh.read())
        except OSError:
            pass
        h.update(b"\0")
    # harness sources are part of the key too
    hdir = os.path.join(VERIF, "harness")
    for root, dirs, names in os.walk(hdir):
        dirs[:] = [d for d in dirs if d != "testdata"]
        for n in sorted(names):
            if n.endswith(".go") or n == "go.mod.in":
                with open(os.path.join(root, n), "rb") as fh:
                    h.update(n.encode() + b"\0" + fh.read())
    return h.hexdigest()[:16]


class Binaries:
    def __init__(self, d, repo, h):
        self.dir = d
        self.repo = repo
        self.hash = h
        self.ti = os.path.join(d, "ti")
        self.c2json = os.path.join(d, "ti-c2json")
        self.rbs2json = os.path.join(d, "ti-rbs2json")
        self.server = os.path.join(d, "ti.verif.test")
        self.lexprobe = os.path.join(d, "lexprobe")
        self.harness = os.path.join(d, "harness")


def _run(cmd, cwd, env, what):
    r = subprocess.run(cmd, cwd=cwd, env=env, stdout=subprocess.PIPE, stderr=subprocess.STDOUT, text=True)
    if r.returncode != 0:
        raise BuildError("%s failed (%s):\n%s" % (what, " ".join(cmd), r.stdout[-4000:]))


def _prepare_harness(repo, dst):
    """Copy harness/ to dst with a go.mod whose replace points at repo."""
    src = os.path.join(VERIF, "harness")
    if not os.path.isdir(src):
        return False
    if os.path.isdir(dst):
        shutil.rmtree(dst)
    shutil.copytree(src, dst, ignore=shutil.ignore_patterns("testdata"))
    with open(os.path.join(src, "go.mod.in")) as fh:
        gomod = fh.read().replace("@REPO@", repo)
    with open(os.path.join(dst, "go.mod"), "w") as fh:
        fh.write(gomod)
    gs = os.path.join(repo, "go.sum")
    if os.path.exists(gs):
        shutil.copy(gs, os.path.join(dst, "go.sum"))
    return True


def build(repo="/repo", want=("ti", "server"), quiet=False):
    """Build (or fetch from cache) the binaries for the current tree of repo."""
    repo = os.path.abspath(repo)
    os.makedirs(BUILD_ROOT, exist_ok=True)
    h = tree_hash(repo)
    d = os.path.join(BUILD_ROOT, h)
    lock = open(os.path.join(BUILD_ROOT, ".lock"), "w")
    fcntl.flock(lock, fcntl.LOCK_EX)
    try:
        os.makedirs(d, exist_ok=True)
        b = Binaries(d, repo, h)
        env = go_env()
        todo = []
        if "ti" in want and not os.path.exists(b.ti):
            todo.append((["go", "build", "-o", b.ti, "."], repo, "build ti"))
        if "server" in want and not os.path.exists(b.server):
            todo.append((["go", "test", "-c", "-tags", "verif", "-o", b.server, "."], repo, "build verif test binary"))
        if "c2json" in want and not os.path.exists(b.c2json):
            todo.append((["go", "build", "-o", b.c2json, "./cmd/c2json"], repo, "build ti-c2json"))
        if "rbs2json" in want and not os.path.exists(b.rbs2json):
            todo.append((["go", "build", "-o", b.rbs2json, "./cmd/rbs2json"], repo, "build ti-rbs2json"))
        for cmd, cwd, what in todo:
            if not quiet:
                print("[build] %s (%s)" % (what, h), file=sys.stderr)
            _run(cmd, cwd, env, what)
        if "lexprobe" in want and not os.path.exists(b.lexprobe):
            if _prepare_harness(repo, b.harness):
                if not quiet:
                    print("[build] lexprobe (%s)" % h, file=sys.stderr)
                _run(["go", "build", "-tags", "verif", "-o", b.lexprobe, "./lexprobe"], b.harness, env, "build lexprobe")
        if "harness" in want and not os.path.isdir(b.harness):
            _prepare_harness(repo, b.harness)
        _prune(keep=d)
        # builds must not dirty the repo (go.sum rewrite by -mod=mod)
        return b
    finally:
        fcntl.flock(lock, fcntl.LOCK_UN)
        lock.close()


def _prune(keep, n=3):
    try:
        ents = [os.path.join(BUILD_ROOT, e) for e in os.listdir(BUILD_ROOT) if not e.startswith(".")]
        ents = [e for e in ents if os.path.isdir(e) and e != keep]
        ents.sort(key=lambda e: os.path.getmtime(e), reverse=True)
        for e in ents[n - 1:]:
            shutil.rmtree(e, ignore_errors=True)
    except OSError:
        pass


if __name__ == "__main__":
    repo = sys.argv[1] if len(sys.argv) > 1 else "/repo"
    b = build(repo, want=("ti", "server", "c2json", "rbs2json", "lexprobe"))
    print(b.dir)
