"""ti's output-line grammar, parsing, row remapping and the type-string parser."""
import re


def parse_lines(out, file):
    """Parse plain / -i output into records (kind, row, text).

    kind 'E' = diagnostic `<file>:::<row>:::msg`, 'H' = hint `@<file>:::<row>:::...`.
    Returns (records, bad_lines). A line that does not match either form is bad.
    """
    recs = []
    bad = []
    if not out:
        return recs, bad
    lines = out.split("\n")
    if lines and lines[-1] == "":
        lines.pop()
    pe = file + ":::"
    ph = "@" + file + ":::"
    for l in lines:
        if l.startswith(pe):
            rest = l[len(pe):]
            kind = "E"
        elif l.startswith(ph):
            rest = l[len(ph):]
            kind = "H"
        else:
            bad.append(l)
            continue
        i = rest.find(":::")
        if i <= 0 or not rest[:i].isdigit():
            bad.append(l)
            continue
        recs.append((kind, int(rest[:i]), rest[i + 3:]))
    return recs, bad


def by_row(recs):
    d = {}
    for k, r, t in recs:
        d.setdefault(r, []).append((k, t))
    return d


def errors_on(recs, row):
    return [t for k, r, t in recs if k == "E" and r == row]


def shift(recs, at_row, n):
    """Rows strictly greater than at_row move by n."""
    return [(k, r + n if r > at_row else r, t) for k, r, t in recs]


def multiset(recs):
    return sorted(recs)


# ---------------------------------------------------------------- type strings

class TypeParseError(Exception):
    pass


def _tokenize(s):
    toks = []
    i = 0
    while i < len(s):
        c = s[i]
        if c in "<>":
            toks.append(c)
            i += 1
        elif c == " ":
            i += 1
        else:
            j = i
            while j < len(s) and s[j] not in "<> ":
                j += 1
            toks.append(s[i:j])
            i = j
    return toks


def parse_type(s):
    """Parse a rendered type into a canonical, order-insensitive form.

    Returns frozenset of atoms; an atom is a string ('Integer', 'NilClass', 'Foo',
    'untyped', 'Unknown', 'Hash') or a tuple ('Array', frozenset(atoms)) .
    Unions are flattened into the set.
    """
    toks = _tokenize(s.strip())
    pos = [0]

    def parse_one():
        if pos[0] >= len(toks):
            raise TypeParseError(s)
        t = toks[pos[0]]
        pos[0] += 1
        if t in ("<", ">"):
            raise TypeParseError(s)
        if pos[0] < len(toks) and toks[pos[0]] == "<":
            pos[0] += 1
            items = set()
            while pos[0] < len(toks) and toks[pos[0]] != ">":
                items |= parse_one()
            if pos[0] >= len(toks):
                raise TypeParseError(s)
            pos[0] += 1
            if t == "Union":
                return frozenset(items)
            return frozenset([(t, frozenset(items))])
        return frozenset([t])

    res = set()
    while pos[0] < len(toks):
        res |= parse_one()
    return frozenset(res)


def fmt_type(ty):
    def atom(a):
        if isinstance(a, tuple):
            return "%s<%s>" % (a[0], " ".join(sorted(atom(x) for x in a[1])))
        return a
    items = sorted(atom(a) for a in ty)
    if len(items) == 1:
        return items[0]
    return "Union<%s>" % " ".join(items)
