"""Ruby-subset program generator (Hypothesis strategies) with exactly known structure.

A program is a JSON-able tree: a list of nodes, each either
    {"t": "one line of code"}                       simple statement
    {"h": head, "b": [nodes], "m": [[mid, [nodes]], ...], "e": "end"}   block statement
All identifiers introduced by the generator are `<word><digits>` tokens that are unique
in the program, so renaming is an exact whole-word substitution and independence of two
programs is decidable by comparing name pools. The style is the curated plain style of
DESIGN.md 3.4: one statement per line, calls with parentheses, no statement starting with
`[ ( - *`, blocks as do |x| ... end.
"""
import re

from hypothesis import strategies as st

# coarse types
I, S, F, N, Y, B = "I", "S", "F", "N", "Y", "B"
AI, AS, AIS, H = "AI", "AS", "AIS", "H"

LITS = {
    I: ["1", "2", "7", "42", "100"],
    S: ['"s"', '"abc"', "'q'", '"hello world"'],
    F: ["1.5", "2.25"],
    N: ["nil"],
    Y: [":a", ":key"],
    B: ["true", "false"],
    AI: ["[1, 2]", "[3]", "[1, 2, 3]"],
    AS: ['["a", "b"]', '["x"]'],
    AIS: ['[1, "a"]', '["b", 2, 3]'],
    H: ["{a: 1, b: 2}", '{a: 1, b: "x"}', '{"k" => 1}'],
}

# (receiver coarse type) -> [(method call text with %s for an argument expr of type T, argtype or None, result type)]
METHODS = {
    I: [("+", I, I), ("-", I, I), ("*", I, I), (".to_s", None, S), (".to_f", None, F), (".abs", None, I), (".to_i", None, I), (".chr", None, S)],
    S: [("+", S, S), (".upcase", None, S), (".downcase", None, S), (".length", None, I), (".to_i", None, I), (".to_sym", None, Y), (".strip", None, S),
        (".to_f", None, F), (".chomp", None, S), (".start_with?", S, B), (".empty?", None, B)],
    F: [("+", F, F), (".to_i", None, I), (".to_s", None, S), (".abs", None, F)],
    Y: [(".to_sym", None, Y), (".inspect", None, S)],
    AI: [(".length", None, I), (".push", I, AI), (".include?", I, B), (".join", None, S), (".empty?", None, B), (".sort", None, None), (".uniq", None, None)],
    AS: [(".length", None, I), (".join", None, S), (".push", S, AS), (".empty?", None, B)],
    AIS: [(".length", None, I), (".empty?", None, B), (".inspect", None, S)],
    H: [(".length", None, None), (".keys", None, None), (".values", None, None), (".empty?", None, B)],
}
ELEM = {AI: I, AS: S}

WORDS_LOCAL = ["item", "count", "total", "name", "value", "index", "buffer", "result", "flag", "limit", "acc", "cur", "msg", "num", "x", "y", "data", "w"]
WORDS_METH = ["calc", "build", "fetch", "render", "apply", "check", "make", "run", "step"]
WORDS_CLASS = ["Widget", "Gadget", "Engine", "Shape", "Node", "Account", "Parser"]
WORDS_MOD = ["Helper", "Util", "Mixin", "Tools"]
WORDS_PARAM = ["arg", "opt", "src", "dst", "par"]
WORDS_BLK = ["el", "ix", "it", "pair"]

IDENT_RE = re.compile(r"(?<![\w@$:.])[A-Za-z_]\w*[?!]?")


class Gen:
    """Stateful builder used inside one composite draw."""

    def __init__(self, draw, prefix="", errors=0.1, max_depth=3, allow_defs=True, allow_classes=True, want_dbtp=True, case_in=False, rich=False):
        self.draw = draw
        self.case_in = case_in
        self.rich = rich
        self.n = 0
        self.prefix = prefix
        self.vars = {}          # name -> coarse type or frozenset of coarse types (union)
        self.methods = []       # (name, nparams, kwnames, restype)  top-level user methods
        self.classes = []       # (name, [(mname, nparams, static, restype)], ctor_params)
        self.errors = errors
        self.max_depth = max_depth
        self.allow_defs = allow_defs
        self.allow_classes = allow_classes
        self.want_dbtp = want_dbtp
        self.locked = set()
        self.depth = 0
        self.names = {"local": [], "method": [], "class": [], "module": [], "param": [], "blk": [], "writer": []}

    # ---- helpers
    def i(self, lo, hi):
        return self.draw(st.integers(lo, hi))

    def pick(self, xs):
        return xs[self.draw(st.integers(0, len(xs) - 1))]

    def chance(self, p):
        return self.draw(st.integers(0, 999)) < int(p * 1000)

    def fresh(self, kind):
        self.n += 1
        words = {"local": WORDS_LOCAL, "method": WORDS_METH, "class": WORDS_CLASS, "module": WORDS_MOD, "param": WORDS_PARAM, "blk": WORDS_BLK}[kind]
        w = self.pick(words)
        if kind in ("class", "module"):
            name = "%s%s%d" % (self.prefix.capitalize(), w, self.n)
        else:
            name = "%s%s%d" % (self.prefix, w, self.n)
        self.names[kind].append(name)
        return name

    def lit(self, t):
        return self.pick(LITS[t])

    def scalar_vars(self, t=None, scope=None):
        scope = self.vars if scope is None else scope
        return [v for v, ty in scope.items() if (ty == t if t else isinstance(ty, str))]

    def expr(self, t, depth=0):
        """An expression of coarse type t (well typed by construction)."""
        cands = self.scalar_vars(t)
        r = self.i(0, 9)
        if cands and r < 4:
            return self.pick(cands)
        if depth < 2 and r < 7:
            # a method call producing t
            opts = []
            for rt, ms in METHODS.items():
                for m, a, res in ms:
                    if res == t:
                        opts.append((rt, m, a))
            if opts:
                rt, m, a = self.pick(opts)
                recv = self.expr(rt, depth + 1)
                if recv.startswith("-") or re.search(r" [-+*] ", recv):
                    recv = "(" + recv + ")"
                if m[0] != ".":
                    return "%s %s %s" % (recv, m, self.expr(a, depth + 1))
                if a is None:
                    return recv + m
                return "%s%s(%s)" % (recv, m, self.expr(a, depth + 1))
        return self.lit(t)

    def any_type(self, scalars_only=False):
        return self.pick([I, S, F, Y, I, S] if scalars_only else [I, S, F, Y, AI, AS, AIS, H, I, S, AI])

    # ---- statements; each returns a list of nodes
    def s_assign(self):
        reuse = bool(self.vars) and not self.chance(0.6)
        if reuse:
            cands = [x for x in self.vars if x not in self.locked]
            if self.depth > 0:
                # inside nested bodies an outer variable keeps its type (ti joins branches and loop iterations)
                cands = [x for x in cands if isinstance(self.vars[x], str) and self.vars[x] in LITS]
            if not cands:
                reuse = False
        if reuse:
            v = self.pick(cands)
            if self.depth > 0:
                t = self.vars[v]
                return [{"t": "%s = %s" % (v, self.expr(t))}]
        else:
            v = self.fresh("local")
        r = self.i(0, 9)
        if r < 6:
            t = self.any_type()
            e = self.expr(t)
            self.vars[v] = t
            return [{"t": "%s = %s" % (v, e)}]
        if r < 9:
            t1 = self.any_type(True)
            t2 = self.pick([x for x in [I, S, N, F, Y] if x != t1])
            e = "%s = %s ? %s : %s" % (v, self.pick(["true", "false"]), self.expr(t1, 2), self.expr(t2, 2))
            self.vars[v] = frozenset([t1, t2])
            return [{"t": e}]
        # assignment from a user call
        if self.methods:
            m = self.pick(self.methods)
            e = "%s = %s" % (v, self.call_user(m))
            self.vars[v] = "?"
            return [{"t": e}]
        t = self.any_type()
        self.vars[v] = t
        return [{"t": "%s = %s" % (v, self.lit(t))}]

    def call_user(self, m):
        name, npar, kws, _ = m
        args = [self.expr(self.any_type(True), 1) for _ in range(npar)]
        for k in kws:
            args.append("%s: %s" % (k, self.expr(self.any_type(True), 2)))
        return "%s(%s)" % (name, ", ".join(args))

    def s_dbtp(self):
        if self.vars and self.chance(0.7):
            v = self.pick(list(self.vars))
            return [{"t": "dbtp %s" % v}]
        return [{"t": "dbtp %s" % self.expr(self.any_type(), 0)}]

    def s_call(self):
        sv = self.scalar_vars()
        sv = [v for v in sv if self.vars[v] in METHODS]
        if sv and self.chance(0.7):
            v = self.pick(sv)
            m, a, res = self.pick(METHODS[self.vars[v]])
            if m[0] != ".":
                nv = self.fresh("local")
                e = "%s = %s %s %s" % (nv, v, m, self.expr(a, 1))
                self.vars[nv] = res or "?"
                return [{"t": e}]
            if a is None:
                return [{"t": v + m}]
            return [{"t": "%s%s(%s)" % (v, m, self.expr(a, 1))}]
        if self.methods:
            return [{"t": self.call_user(self.pick(self.methods))}]
        if self.classes:
            return self.s_obj_call()
        return [{"t": "puts(%s)" % self.expr(S, 1)}]

    def s_error(self):
        r = self.i(0, 8)
        if r >= 6:
            # a diagnostic on a statement that also has a state effect: an existing variable reassigned from a rejected call
            # (wrong count on a user method, misspelt builtin, wrong argument type); the variable is read again later
            cands = [v for v, t in self.vars.items() if t in (I, S, AI, AS)]
            if cands:
                v = self.pick(cands)
                if r == 6 and self.methods:
                    name, npar, kws, _ = self.pick(self.methods)
                    rhs = "%s(%s)" % (name, ", ".join(["1"] * (npar + 1)))
                elif r == 7:
                    rhs = "%s.lenght" % self.lit(self.pick([I, S, AI]))
                else:
                    rhs = "%s.upcase(%s)" % (self.lit(S), self.lit(I))
                self.vars[v] = "?"
                return [{"t": "%s = %s" % (v, rhs)}] + ([{"t": "dbtp %s" % v}] if self.want_dbtp else [])
            r = self.i(0, 5)
        if r == 0:
            return [{"t": "%s + %s" % (self.lit(I), self.lit(S))}]
        if r == 1:
            return [{"t": "%s.undefined_thing%d" % (self.expr(self.any_type(True), 2), self.i(1, 3))}]
        if r == 2:
            return [{"t": "%s.upcase(%s)" % (self.lit(S), self.lit(I))}]
        if r == 3 and self.methods:
            name, npar, kws, _ = self.pick(self.methods)
            return [{"t": "%s(%s)" % (name, ", ".join(["1"] * (npar + 2)))}]
        if r == 4:
            return [{"t": "dbtp %s" % self.fresh("local")}]
        return [{"t": "%s.length(1, 2)" % self.lit(AI)}]

    def cond(self):
        """(condition text) over existing variables."""
        unions = [v for v, t in self.vars.items() if isinstance(t, frozenset)]
        ints = self.scalar_vars(I)
        r = self.i(0, 9)
        if unions and r < 6:
            v = self.pick(unions)
            ts = sorted(self.vars[v])
            k = self.i(0, 3)
            cls = {I: "Integer", S: "String", F: "Float", Y: "Symbol", N: "NilClass"}
            if k == 0:
                return "%s.nil?" % v
            if k == 1:
                return "!%s.nil?" % v
            return "%s.is_a?(%s)" % (v, cls[self.pick(ts)])
        strs = self.scalar_vars(S)
        if strs and r in (6, 9):
            # string comparison against a literal with a blank in it (C06 widens such literals over several lines)
            return "%s %s %s" % (self.pick(strs), self.pick(["==", "!="]), self.pick(['"abc def"', '"hello world"', '"a b"']))
        if ints and r < 9:
            return "%s %s %s" % (self.pick(ints), self.pick(["<", ">", "==", "<=", "!="]), self.lit(I))
        return self.pick(["true", "false", "1 == 1", '"x y" == "x y"'])

    def body(self, depth, n=None, scope_restore=True):
        saved = dict(self.vars)
        n = self.i(1, 3) if n is None else n
        out = []
        od = self.depth
        self.depth = depth
        for _ in range(n):
            out += self.stmt(depth)
        self.depth = od
        if scope_restore:
            # variables first assigned in a nested body are not relied on afterwards; changed ones become unknown
            for v in list(self.vars):
                if v not in saved:
                    del self.vars[v]
                elif self.vars[v] != saved[v]:
                    self.vars[v] = "?"
        return out

    def s_if(self, depth):
        kw = self.pick(["if", "if", "unless"])
        node = {"h": "%s %s" % (kw, self.cond()), "b": self.body(depth + 1), "m": [], "e": "end"}
        if kw == "if" and self.chance(0.3):
            node["m"].append(["elsif %s" % self.cond(), self.body(depth + 1)])
        if self.chance(0.5):
            node["m"].append(["else", self.body(depth + 1)])
        return [node]

    def s_while(self, depth):
        v = self.fresh("local")
        self.vars[v] = I
        self.locked.add(v)
        b = self.body(depth + 1, n=self.i(0, 2))
        b.append({"t": "%s = %s + 1" % (v, v)})
        return [{"t": "%s = 0" % v}, {"h": "while %s < %s" % (v, self.lit(I)), "b": b, "m": [], "e": "end"}]

    def s_block(self, depth):
        arrs = [v for v, t in self.vars.items() if t in (AI, AS, AIS)]
        if arrs and self.chance(0.6):
            recv = self.pick(arrs)
            et = ELEM.get(self.vars[recv], "?")
        else:
            t = self.pick([AI, AS, AIS])
            recv = self.lit(t)
            et = ELEM.get(t, "?")
            if self.chance(0.5):
                v = self.fresh("local")
                self.vars[v] = t
                pre = [{"t": "%s = %s" % (v, recv)}]
                recv = v
            else:
                pre = []
                recv = None
            if recv is None:
                # literal receivers may not start a statement: bind first
                v = self.fresh("local")
                self.vars[v] = t
                pre = [{"t": "%s = %s" % (v, self.lit(t))}]
                recv = v
            return pre + self._block_on(recv, et, depth)
        return self._block_on(recv, et, depth)

    def _block_on(self, recv, et, depth):
        kind = self.i(0, 4)
        p = self.fresh("blk")
        saved = dict(self.vars)
        self.vars[p] = et
        if kind == 0:
            q = self.fresh("blk")
            self.vars[q] = I
            head = "%s.each_with_index do |%s, %s|" % (recv, p, q)
        elif kind == 1:
            head = "%s.collect do |%s|" % (recv, p)
        elif kind == 2:
            nv = self.fresh("local")
            b = [{"t": "dbtp %s" % p}] if self.want_dbtp else [{"t": "%s.to_s" % p}]
            self.vars = saved
            self.vars[nv] = "?"
            return [{"t": "%s = %s.collect { |%s| %s.to_s }" % (nv, recv, p, p)}] + ([] if not self.want_dbtp else [{"t": "dbtp %s" % nv}])
        else:
            head = "%s.each do |%s|" % (recv, p)
        b = self.body(depth + 1)
        self.vars = {k: (saved[k] if self.vars.get(k) == saved[k] else "?") for k in saved}
        return [{"h": head, "b": b, "m": [], "e": "end"}]

    def s_union_block(self, depth):
        """A block with parameters on a receiver that is a union of two enumerable kinds; the parameter is printed inside the block
        (its type comes from per-call resolution state, not from one configured method)."""
        v = self.fresh("local")
        p = self.fresh("blk")
        a, b = self.pick([("[1, 2]", "(1..3)"), ("[1]", "{a: 1}"), ('["a"]', "(1..2)"), ("[1, 2]", '["s"]'), ("{a: 1}", "(1..3)")])
        self.vars[v] = "?"
        meth = self.pick(["each", "each", "map", "select", "each_with_index"])
        params = p if meth != "each_with_index" else "%s, %s" % (p, self.fresh("blk"))
        out = [{"t": "%s = true ? %s : %s" % (v, a, b)}]
        if self.chance(0.5):
            out.append({"t": "%s.%s { |%s| dbtp %s }" % (v, meth, params, p)})
        else:
            out.append({"h": "%s.%s do |%s|" % (v, meth, params), "b": [{"t": "dbtp %s" % p}], "m": [], "e": "end"})
        return out

    def s_times(self, depth):
        p = self.fresh("blk")
        saved = dict(self.vars)
        self.vars[p] = I
        b = self.body(depth + 1)
        self.vars = {k: (saved[k] if self.vars.get(k) == saved[k] else "?") for k in saved}
        return [{"h": "%s.times do |%s|" % (self.lit(I), p), "b": b, "m": [], "e": "end"}]

    def s_case(self, depth):
        ints = self.scalar_vars(I)
        if not ints:
            return self.s_assign()
        v = self.pick(ints)
        node = {"h": "case %s" % v, "b": [], "m": [], "e": "end"}
        for k in range(self.i(1, 3)):
            node["m"].append(["when %d" % (k + 1), self.body(depth + 1, n=self.i(1, 2))])
        if self.chance(0.5):
            node["m"].append(["else", self.body(depth + 1, n=1)])
        return [node]

    def s_case_in(self, depth):
        unions = [v for v, t in self.vars.items() if isinstance(t, frozenset)]
        sv = self.scalar_vars(I) + self.scalar_vars(S)
        if not unions and not sv:
            return self.s_assign()
        v = self.pick(unions or sv)
        node = {"h": "case %s" % v, "b": [], "m": [], "e": "end"}
        cls = ["Integer", "String", "Float", "Symbol"]
        for k in range(self.i(1, 2)):
            c = cls[(self.i(0, 3) + k) % 4]
            saved = dict(self.vars)
            if self.chance(0.6):
                pv = self.fresh("blk")
                self.names.setdefault("pattern", []).append(pv)
                self.vars[pv] = "?"
                head = "in %s => %s" % (c, pv)
                pre = [{"t": "dbtp %s" % pv}] if self.want_dbtp else []
            else:
                head = "in %s" % c
                pre = []
            b = pre + self.body(depth + 1, n=self.i(1, 2))
            self.vars = {k2: (saved[k2] if self.vars.get(k2) == saved[k2] else "?") for k2 in saved}
            node["m"].append([head, b])
        k = self.i(0, 9)
        if k < 4:
            node["m"].append(["else", self.body(depth + 1, n=1)])
        elif k < 7:
            # bare name pattern: binds whatever is left
            saved = dict(self.vars)
            pv = self.fresh("blk")
            self.names.setdefault("pattern", []).append(pv)
            self.vars[pv] = "?"
            b = ([{"t": "dbtp %s" % pv}] if self.want_dbtp else []) + self.body(depth + 1, n=1)
            self.vars = {k2: (saved[k2] if self.vars.get(k2) == saved[k2] else "?") for k2 in saved}
            node["m"].append(["in %s" % pv, b])
        out = [node]
        arrs = [a for a, t in self.vars.items() if t in (AI, AS, AIS)]
        if arrs and self.chance(0.4):
            # array pattern: the names bind the elements
            a = self.pick(arrs)
            saved = dict(self.vars)
            p1, p2 = self.fresh("blk"), self.fresh("blk")
            self.names.setdefault("pattern", []).extend([p1, p2])
            self.vars[p1] = self.vars[p2] = "?"
            form = self.pick(["in [%s, %s]", "in [%s, *%s]", "in Array(%s, %s)"]) % (p1, p2)
            b = ([{"t": "dbtp %s" % p1}] if self.want_dbtp else []) + self.body(depth + 1, n=1)
            self.vars = {k2: (saved[k2] if self.vars.get(k2) == saved[k2] else "?") for k2 in saved}
            out.append({"h": "case %s" % a, "b": [], "m": [[form, b]], "e": "end"})
        return out

    def def_node(self, depth, static=False, in_class=False):
        name = self.fresh("method")
        npar = self.i(0, 3)
        params = [self.fresh("param") for _ in range(npar)]
        ndef = self.i(0, 1) if npar else 0
        kws = [self.fresh("param") for _ in range(self.i(0, 1) * self.i(0, 2))]
        sig = []
        for k, p in enumerate(params):
            if k >= npar - ndef:
                sig.append("%s = %s" % (p, self.lit(self.any_type(True))))
            else:
                sig.append(p)
        for kname in kws:
            sig.append("%s: %s" % (kname, self.lit(self.any_type(True))))
        saved = self.vars
        self.vars = {p: "?" for p in params + kws}
        b = []
        if self.want_dbtp and params and self.chance(0.5):
            b.append({"t": "dbtp %s" % params[0]})
        b += self.body(depth + 1, n=self.i(0, 2), scope_restore=False)
        if self.chance(0.3):
            # guard clauses and early returns (value-less modifier forms, and a value that starts with a nested array literal)
            g = self.pick(["return if %s", "return unless %s", "return nil if %s", "return [[1], [2]] if %s"])
            c = ("%s.nil?" % params[0]) if params and self.chance(0.5) else self.pick(["1 == 2", "false", "2 > 1"])
            b.append({"t": g % c})
            if self.chance(0.5):
                b += self.body(depth + 1, n=1, scope_restore=False)
        rt = self.any_type(True)
        if params and self.chance(0.4):
            b.append({"t": params[0]})
            rt = "?"
        else:
            b.append({"t": self.expr(rt, 1)})
        self.vars = saved
        head = "def %s%s%s" % ("self." if static else "", name, "(%s)" % ", ".join(sig) if sig else "")
        return {"h": head, "b": b, "m": [], "e": "end"}, (name, npar - ndef, [], rt)

    def s_def(self, depth):
        node, m = self.def_node(depth)
        self.methods.append(m)
        out = [node]
        for _ in range(self.i(0, 2)):
            if self.chance(0.5) and self.want_dbtp:
                out.append({"t": "dbtp %s" % self.call_user(m)})
            else:
                out.append({"t": self.call_user(m)})
        return out

    def s_class(self, depth):
        cname = self.fresh("class")
        parent = None
        if self.classes and self.chance(0.4):
            parent = self.pick(self.classes)
        body = []
        ms = []
        saved_methods = self.methods
        self.methods = []
        if False:
            pass
        if self.chance(0.3):
            a = self.fresh("param")
            body.append({"t": "attr_accessor :%s" % a})
        ivar = None
        if self.rich and self.chance(0.4):
            # instance variable set in initialize and read by a method; optional attr_reader
            ivar = self.fresh("param")
            ip = self.fresh("param")
            if self.chance(0.5):
                body.append({"t": "attr_reader :%s" % ivar})
            body.append({"h": "def initialize(%s = %s)" % (ip, self.lit(self.any_type(True))), "b": [{"t": "@%s = %s" % (ivar, ip)}], "m": [], "e": "end"})
            rd = self.fresh("method")
            body.append({"h": "def %s" % rd, "b": [{"t": "@%s" % ivar}], "m": [], "e": "end"})
            ms.append((rd, 0, False, "?"))
        for _ in range(self.i(1, 3)):
            static = self.chance(0.25)
            node, m = self.def_node(depth + 1, static=static, in_class=True)
            body.append(node)
            ms.append((m[0], m[1], static, m[3]))
            if self.chance(0.15):
                body.append({"t": self.pick(["private", "protected", "public"])})
        self.methods = saved_methods
        writer = None
        if self.chance(0.3):
            # a hand-written attribute writer (no attr_*, no @ivar of that name) and its use
            writer = self.fresh("method")
            self.names.setdefault("writer", []).append(writer)
            wp = self.fresh("param")
            body.append({"h": "def %s=(%s)" % (writer, wp), "b": [{"t": wp}], "m": [], "e": "end"})
        if self.rich and parent and parent[1] and self.chance(0.3):
            pm = self.pick([x for x in parent[1] if not x[2]] or parent[1])
            if not pm[2]:
                body.append({"h": "def %s(%s)" % (pm[0], ", ".join("sp%d" % i for i in range(pm[1]))), "b": [{"t": "super"}], "m": [], "e": "end"})
        head = "class %s%s" % (cname, " < %s" % parent[0] if parent else "")
        allm = ms + ([x for x in parent[1]] if parent else [])
        self.classes.append((cname, allm, 0))
        out = [{"h": head, "b": body, "m": [], "e": "end"}]
        out += self.s_obj_call()
        if writer:
            wv = self.fresh("local")
            self.vars[wv] = "?"
            out += [{"t": "%s = %s.new" % (wv, cname)}, {"t": "%s.%s = %s" % (wv, writer, self.lit(self.any_type(True)))}]
            if self.want_dbtp:
                out.append({"t": "dbtp %s" % wv})
        return out

    def s_obj_call(self):
        cname, ms, _ = self.pick(self.classes)
        out = []
        v = self.fresh("local")
        self.vars[v] = "?"
        out.append({"t": "%s = %s.new" % (v, cname)})
        for _ in range(self.i(1, 2)):
            mname, npar, static, rt = self.pick(ms)
            recv = cname if static else v
            call = "%s.%s(%s)" % (recv, mname, ", ".join(self.expr(self.any_type(True), 2) for _ in range(npar))) if npar else "%s.%s" % (recv, mname)
            if self.want_dbtp and self.chance(0.5):
                out.append({"t": "dbtp %s" % call})
            else:
                out.append({"t": call})
        return out

    def s_module(self, depth):
        mname = self.fresh("module")
        body = []
        ms = []
        saved_methods = self.methods
        self.methods = []
        for _ in range(self.i(1, 2)):
            node, m = self.def_node(depth + 1)
            body.append(node)
            ms.append((m[0], m[1], False, m[3]))
        self.methods = saved_methods
        cname = self.fresh("class")
        self.classes.append((cname, ms, 0))
        out = [{"h": "module %s" % mname, "b": body, "m": [], "e": "end"},
               {"h": "class %s" % cname, "b": [{"t": "include %s" % mname}], "m": [], "e": "end"}]
        return out + self.s_obj_call()

    def s_opassign(self):
        ints = [v for v in self.scalar_vars(I) if v not in self.locked]
        strs = [v for v in self.scalar_vars(S) if v not in self.locked]
        r = self.i(0, 3)
        if r == 0 and ints:
            return [{"t": "%s %s %s" % (self.pick(ints), self.pick(["+=", "-=", "*="]), self.expr(I, 2))}]
        if r == 1 and strs:
            return [{"t": "%s += %s" % (self.pick(strs), self.expr(S, 2))}]
        if r == 2:
            v = self.fresh("local")
            t = self.any_type(True)
            out = [{"t": "%s = nil" % v}, {"t": "%s ||= %s" % (v, self.lit(t))}]
            self.vars[v] = "?"
            return out
        a, b = self.fresh("local"), self.fresh("local")
        t1, t2 = self.any_type(True), self.any_type(True)
        self.vars[a], self.vars[b] = t1, t2
        return [{"t": "%s, %s = %s, %s" % (a, b, self.lit(t1), self.lit(t2))}]

    def s_interp(self):
        v = self.fresh("local")
        parts = []
        for _ in range(self.i(1, 2)):
            src = list(self.vars)
            parts.append("#{%s}" % (self.pick(src) if src and self.chance(0.7) else self.lit(I)))
        e = '"%s text %s"' % (parts[0], " ".join(parts[1:]))
        self.vars[v] = S
        return [{"t": "%s = %s" % (v, e)}]

    def s_hash_ops(self):
        hs = [v for v, t in self.vars.items() if t == H and v not in self.locked]
        if not hs:
            v = self.fresh("local")
            self.vars[v] = H
            return [{"t": "%s = {a: 1, b: \"x\"}" % v}]
        h = self.pick(hs)
        r = self.i(0, 2)
        if r == 0:
            nv = self.fresh("local")
            self.vars[nv] = "?"
            return [{"t": "%s = %s[:%s]" % (nv, h, self.pick(["a", "b", "zz"]))}] + ([{"t": "dbtp %s" % nv}] if self.want_dbtp else [])
        if r == 1:
            return [{"t": "%s[:%s] = %s" % (h, self.pick(["a", "c"]), self.lit(self.any_type(True)))}]
        return [{"t": "%s.each do |hk, hv|" % h, "x": 1}] and [{"h": "%s.each do |%s, %s|" % (h, self.fresh("blk"), self.fresh("blk")), "b": [{"t": "puts(1.to_s)"}], "m": [], "e": "end"}]

    def s_safe_nav(self):
        unions = [v for v, t in self.vars.items() if isinstance(t, frozenset) and N in t]
        if not unions:
            v = self.fresh("local")
            t = self.any_type(True)
            self.vars[v] = frozenset([t, N])
            return [{"t": "%s = %s ? %s : nil" % (v, self.pick(["true", "false"]), self.lit(t))}]
        v = self.pick(unions)
        nv = self.fresh("local")
        self.vars[nv] = "?"
        return [{"t": "%s = %s&.to_s" % (nv, v)}] + ([{"t": "dbtp %s" % nv}] if self.want_dbtp else [])

    def s_const(self):
        if self.depth > 0:
            return self.s_assign()
        c = self.fresh("class").upper()
        self.names["class"].pop()
        self.names.setdefault("const", []).append(c)
        t = self.any_type(True)
        nv = self.fresh("local")
        self.vars[nv] = t
        return [{"t": "%s = %s" % (c, self.lit(t))}, {"t": "%s = %s" % (nv, c)}]

    def s_begin(self, depth):
        b = self.body(depth + 1, n=self.i(1, 2))
        r = self.body(depth + 1, n=1)
        ev = self.fresh("local")
        head = "begin"
        if self.chance(0.4):
            # value of a begin block assigned: `x = begin ... end`
            nv = self.fresh("local")
            self.vars[nv] = "?"
            head = "%s = begin" % nv
        return [{"h": head, "b": b, "m": [["rescue => %s" % ev, r]] if self.chance(0.7) else [], "e": "end"}]

    def s_range(self, depth):
        p = self.fresh("blk")
        saved = dict(self.vars)
        self.vars[p] = I
        b = self.body(depth + 1, n=self.i(1, 2))
        self.vars = {k: (saved[k] if self.vars.get(k) == saved[k] else "?") for k in saved}
        return [{"h": "(1..%s).each do |%s|" % (self.lit(I), p), "b": b, "m": [], "e": "end"}]

    def s_lambda(self):
        v = self.fresh("local")
        p = self.fresh("blk")
        self.vars[v] = "?"
        out = [{"t": "%s = ->(%s) { %s }" % (v, p, p)}]
        r = self.fresh("local")
        self.vars[r] = "?"
        out.append({"t": "%s = %s.call(%s)" % (r, v, self.lit(self.any_type(True)))})
        return out

    def s_yield_method(self, depth):
        name = self.fresh("method")
        p = self.fresh("blk")
        t = self.any_type(True)
        body = [{"t": "yield %s" % self.lit(t)}]
        if self.chance(0.5):
            body.append({"t": "yield %s" % self.lit(t)})
        saved = dict(self.vars)
        self.vars[p] = "?"
        blk = [{"t": "dbtp %s" % p}] if self.want_dbtp else [{"t": "%s.to_s" % p}]
        blk += self.body(depth + 1, n=self.i(0, 1))
        self.vars = {k: (saved[k] if self.vars.get(k) == saved[k] else "?") for k in saved}
        return [{"h": "def %s" % name, "b": body, "m": [], "e": "end"}, {"h": "%s do |%s|" % (name, p), "b": blk, "m": [], "e": "end"}]

    def s_heredoc(self):
        v = self.fresh("local")
        self.vars[v] = S
        return [{"t": "%s = <<~EOS\n  heredoc text\n  more\nEOS" % v}]

    def s_string_ml(self):
        v = self.fresh("local")
        self.vars[v] = S
        return [{"t": '%s = "%s"' % (v, self.pick(["abc def", "one two three", "k"]))}]

    def stmt(self, depth):
        top = depth == 0
        r = self.i(0, 99)
        if self.errors and self.chance(self.errors):
            return self.s_error()
        if r < 22:
            return self.s_assign()
        if r < 34:
            return self.s_dbtp() if self.want_dbtp else self.s_call()
        if r < 46:
            return self.s_call()
        if depth < self.max_depth:
            if r < 58:
                return self.s_if(depth)
            if r < 63:
                return self.s_while(depth)
            if r < 73:
                return self.s_block(depth)
            if r < 77:
                return self.s_times(depth)
            if r < 81:
                return self.s_case_in(depth) if (self.case_in and self.chance(0.5)) else self.s_case(depth)
            if top and self.allow_defs and r < 89:
                return self.s_def(depth)
            if top and self.allow_classes and r < 96:
                return self.s_class(depth)
            if top and self.allow_classes and r < 98:
                return self.s_module(depth)
        if self.rich:
            k = self.i(0, 13)
            if k == 0:
                return self.s_opassign()
            if k == 1:
                return self.s_interp()
            if k == 2:
                return self.s_hash_ops()
            if k == 3:
                return self.s_safe_nav()
            if k == 4 and top:
                return self.s_const()
            if k == 5 and depth < self.max_depth:
                return self.s_begin(depth)
            if k == 6 and depth < self.max_depth:
                return self.s_range(depth)
            if k == 7:
                return self.s_lambda()
            if k == 8 and top and self.allow_defs:
                return self.s_yield_method(depth)
            if k == 9 and top:
                return self.s_heredoc()
            if k == 10:
                return self.s_union_block(depth)
        if r % 7 == 0:
            return self.s_string_ml()
        return self.s_assign()


@st.composite
def program(draw, prefix="", min_stmts=3, max_stmts=10, errors=0.08, allow_defs=True, allow_classes=True, want_dbtp=True, max_depth=3, case_in=False, rich=None):
    if rich is None:
        rich = draw(st.booleans())
    g = Gen(draw, prefix=prefix, errors=errors, allow_defs=allow_defs, allow_classes=allow_classes, want_dbtp=want_dbtp, max_depth=max_depth, case_in=case_in, rich=rich)
    n = draw(st.integers(min_stmts, max_stmts))
    tree = []
    for _ in range(n):
        tree += g.stmt(0)
    if want_dbtp:
        for v in list(g.vars)[:3]:
            tree.append({"t": "dbtp %s" % v})
    return {"tree": tree, "names": g.names}


def fragment(prefix="zq", **kw):
    """A program without def/class/module whose identifiers all start with `prefix`."""
    kw.setdefault("min_stmts", 1)
    kw.setdefault("max_stmts", 5)
    return program(prefix=prefix, allow_defs=False, allow_classes=False, **kw)


# ------------------------------------------------------------------ tree utilities

def render_lines(nodes, depth=0):
    out = []
    ind = "  " * depth
    for n in nodes:
        if "t" in n:
            for l in n["t"].split("\n"):
                out.append(ind + l if l else l)
        else:
            out.append(ind + n["h"])
            out += render_lines(n["b"], depth + 1)
            for mid, body in n.get("m", []):
                out.append(ind + mid)
                out += render_lines(body, depth + 1)
            out.append(ind + n["e"])
    return out


def render(nodes):
    return "\n".join(render_lines(nodes)) + "\n"


def count_lines(nodes):
    return len(render_lines(nodes))


def bodies(nodes, path=(), depth=0, ctx="top"):
    """Yield (path, list_of_nodes, depth, ctx) for the top level and every nested body."""
    yield path, nodes, depth, ctx
    for i, n in enumerate(nodes):
        if "h" in n:
            c = n["h"].split(" ", 1)[0].split(".")[0]
            kind = n["h"].split(" ", 1)[0]
            if " do |" in n["h"] or n["h"].endswith(" do"):
                kind = "block"
            if not (kind == "case" and not n["b"]):
                yield from bodies(n["b"], path + (i, "b"), depth + 1, kind)
            for k, (mid, body) in enumerate(n.get("m", [])):
                yield from bodies(body, path + (i, "m", k), depth + 1, kind + ":" + mid.split(" ", 1)[0])


def get_body(nodes, path):
    cur = nodes
    i = 0
    while i < len(path):
        n = cur[path[i]]
        if path[i + 1] == "b":
            cur = n["b"]
            i += 2
        else:
            cur = n["m"][path[i + 2]][1]
            i += 3
    return cur


def boundaries(nodes):
    """All (path, index, depth, ctx, is_end): insertion before statement `index` of the body at `path` (index == len -> after the last)."""
    res = []
    for path, body, depth, ctx in bodies(nodes):
        for idx in range(len(body) + 1):
            res.append((path, idx, depth, ctx, idx == len(body)))
    return res


def deep_copy(nodes):
    out = []
    for n in nodes:
        if "t" in n:
            out.append({"t": n["t"]})
        else:
            out.append({"h": n["h"], "b": deep_copy(n["b"]), "m": [[m, deep_copy(b)] for m, b in n.get("m", [])], "e": n["e"]})
    return out


def insert(nodes, path, idx, new_nodes):
    """Returns (new tree, first_row_of_insertion (1-based), number_of_lines_inserted)."""
    tree = deep_copy(nodes)
    marker = {"t": "\0MARK"}
    body = get_body(tree, list(path))
    body.insert(idx, marker)
    lines = render_lines(tree)
    row = next(i for i, l in enumerate(lines) if l.endswith("\0MARK")) + 1
    body[idx:idx + 1] = deep_copy(new_nodes)
    depth = len([p for p in path if p in ("b", "m")])
    return tree, row, count_lines(new_nodes)


def rename_text(text, old, new):
    return re.sub(r"(?<![\w@$])%s(?![\w?!])" % re.escape(old), new, text)


def rename_tree(nodes, old, new):
    out = []
    for n in nodes:
        if "t" in n:
            out.append({"t": rename_text(n["t"], old, new)})
        else:
            out.append({"h": rename_text(n["h"], old, new), "b": rename_tree(n["b"], old, new),
                        "m": [[rename_text(m, old, new), rename_tree(b, old, new)] for m, b in n.get("m", [])], "e": n["e"]})
    return out


def all_names(names):
    return [x for k in names for x in names[k]]
