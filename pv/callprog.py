"""Programs of calls against a generated configuration, with the model's expectation per call line (shared by C07/C08/C09/C19/C20/C21)."""
from hypothesis import strategies as st

from . import cfg as cfgmod

PRIM_CLASSES = list(cfgmod.LITS)


@st.composite
def call_program(draw, config=None, ncalls=(2, 5), nest=True, valid=False, **cfgkw):
    """Returns {"cfg": abstract config, "lines": [...], "probes": [...]}.

    probe = {"row": 1-based row of the call line, "R": receiver classes, "m": method, "pos": [[classes]...],
             "kws": {key: [classes]}, "static": bool, "var": result variable, "dbtp_row": row of `dbtp var`}
    """
    c = config if config is not None else draw(cfgmod.gen_config(**cfgkw))
    model = cfgmod.Model(c)
    classes = [k["class"] for k in c["classes"]]
    lines = []
    probes = []
    nv = [0]
    # (class, zero-argument instance method, modelled return classes) usable behind `&.`
    safe_nav = []
    for k_ in c["classes"]:
        for m_ in k_["imethods"]:
            if not m_["args"] and len([d for d in k_["imethods"] if d["name"] == m_["name"]]) == 1:
                rc = model.return_classes(k_["class"], m_)
                if rc:
                    safe_nav.append((k_["class"], m_["name"], rc))

    def var(e):
        v = "v%d" % nv[0]
        nv[0] += 1
        lines.append("%s = %s" % (v, e))
        return v

    def value(want=None):
        """Returns (set of classes, expression). `want` = list of type names to aim at (or None)."""
        r = draw(st.integers(0, 99))
        pool = PRIM_CLASSES + classes
        if want and "NilClass" in want and safe_nav and draw(st.integers(0, 1)) == 0:
            # result of a safe-navigation call on an optional receiver: declared return classes plus NilClass
            cands = [(c_, m_, rc) for (c_, m_, rc) in safe_nav if rc | {"NilClass"} <= {cfgmod.cls_of(t) for t in want}]
            if cands:
                c_, m_, rc = cands[draw(st.integers(0, len(cands) - 1))]
                rv = var("true ? %s.new : nil" % c_)
                return set(rc) | {"NilClass"}, var("%s&.%s()" % (rv, m_))
        if want and "Untyped" not in want and r < (75 if valid else 55):
            k = cfgmod.cls_of(want[draw(st.integers(0, len(want) - 1))])
            return {k}, cfgmod.lit(k)
        if want and "Untyped" not in want and len(want) >= 2 and r < (97 if valid else 70):
            # union argument drawn from the accepted types (all of them or a strict subset)
            n = 2
            idx = draw(st.lists(st.integers(0, len(want) - 1), min_size=n, max_size=n, unique=True))
            ks = [cfgmod.cls_of(want[i]) for i in idx]
            if len(set(ks)) >= 2:
                e = var("true ? %s : %s" % (cfgmod.lit(ks[0]), cfgmod.lit(ks[1]))) if len(ks) == 2 else \
                    var("true ? %s : (true ? %s : %s)" % (cfgmod.lit(ks[0]), cfgmod.lit(ks[1]), cfgmod.lit(ks[2])))
                return set(ks[:3]), e
        if r < 82:
            k = pool[draw(st.integers(0, len(pool) - 1))]
            return {k}, cfgmod.lit(k)
        i, j = draw(st.lists(st.integers(0, len(pool) - 1), min_size=2, max_size=2, unique=True))
        a, b = pool[i], pool[j]
        return {a, b}, var("true ? %s : %s" % (cfgmod.lit(a), cfgmod.lit(b)))

    n = draw(st.integers(*ncalls))
    for k in range(n):
        static = draw(st.integers(0, 9)) == 0
        if static:
            cands = [x for x in classes if any(m["name"] != "new" for m in model.classes[x]["cmethods"])]
            if not cands:
                static = False
        if static:
            cl = cands[draw(st.integers(0, len(cands) - 1))]
            R = [cl]
            recv = cl
        elif draw(st.integers(0, 3)) == 0 and len(classes) >= 2:
            i, j = draw(st.lists(st.integers(0, len(classes) - 1), min_size=2, max_size=2, unique=True))
            R = [classes[i], classes[j]]
            recv = var("true ? %s.new : %s.new" % (R[0], R[1]))
        else:
            cl = classes[draw(st.integers(0, len(classes) - 1))]
            R = [cl]
            recv = var("%s.new" % cl)
        names = sorted({d["name"] for x in R for a in model.ancestors(x) for d in model.classes[a]["cmethods" if static else "imethods"]} - {"new"})
        if not names or draw(st.integers(0, 29 if valid else 9)) == 0:
            m = "nope"
        else:
            m = names[draw(st.integers(0, len(names) - 1))]
        ds = [d for x in R for d in model.decls(x, m, static)]
        d = ds[draw(st.integers(0, len(ds) - 1))] if ds else {"args": []}
        P = [a for a in d["args"] if not a["key"] and not a["rest"]]
        RST = [a for a in d["args"] if a["rest"]]
        K = [a for a in d["args"] if a["key"]]
        mn = len([a for a in P if not a["default"]])
        r = draw(st.integers(0, 99))
        if r < (95 if valid else 60):
            npos = draw(st.integers(mn, len(P))) if len(P) >= mn else len(P)
            if RST and draw(st.booleans()):
                npos = len(P) + draw(st.integers(0, 2))
        else:
            # wrong counts: one too many is the most telling (a fixed-arity declaration must say so whatever was tried before it)
            npos = draw(st.sampled_from([len(P) + 1, len(P) + 1] + list(range(0, len(P) + 3))))
        pos = []
        exprs = []
        for j in range(npos):
            want = P[j]["types"] if j < len(P) else (RST[0]["types"] if RST else None)
            if draw(st.integers(0, 39 if valid else 9)) < 2:
                want = None
            s, e = value(want)
            pos.append(sorted(s))
            exprs.append(e)
        kws = {}
        for a in K:
            if a["default"] and draw(st.booleans()):
                continue
            if not a["default"] and draw(st.integers(0, 40 if valid else 6)) == 0:
                continue
            want = a["types"] if draw(st.integers(0, 39 if valid else 9)) < (38 if valid else 7) else None
            s, e = value(want)
            kws[a["key"]] = sorted(s)
            exprs.append("%s: %s" % (a["key"], e))
        row = len(lines) + 1
        lines.append("r%d = %s.%s(%s)" % (k, recv, m, ", ".join(exprs)))
        lines.append("dbtp r%d" % k)
        probes.append({"row": row, "R": R, "m": m, "pos": pos, "kws": kws, "static": static, "var": "r%d" % k, "dbtp_row": row + 1})
        if not static and any(d_.get("destructive") for d_ in ds):
            # a destructive method rebinds its receiver: show what the receiver is afterwards
            lines.append("dbtp %s" % recv)
    wrap = None
    if nest and draw(st.integers(0, 3)) == 0:
        wrap = draw(st.sampled_from(["if true", "unless false", "2.times do |wi|"]))
    if wrap:
        lines = [wrap] + ["  " + l for l in lines] + ["end"]
        for p in probes:
            p["row"] += 1
            p["dbtp_row"] += 1
    return {"cfg": c, "lines": lines, "probes": probes, "wrap": wrap}


def source(case):
    return "\n".join(case["lines"]) + "\n"


def verdicts(case):
    """[(probe, verdict, reason, applicable)] recomputed from the abstract config (so replays follow model changes)."""
    model = cfgmod.Model(case["cfg"])
    out = []
    for p in case["probes"]:
        v, why, app = model.verdict(p["R"], p["m"], [set(s) for s in p["pos"]], {k: set(s) for k, s in p["kws"].items()}, p.get("static", False))
        out.append((p, v, why, app))
    return out, model
