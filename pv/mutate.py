"""Prefixes, token mutators, hostile dictionary, raw inputs (all randomness from Hypothesis)."""
import re

from hypothesis import strategies as st

TOKEN_RE = re.compile(
    r"""\#[^\n]*|"(?:[^"\\\n]|\\.)*"|'(?:[^'\\\n]|\\.)*'|:[A-Za-z_]\w*|@{0,2}[A-Za-z_]\w*[?!]?|\d+(?:\.\d+)?|"""
    r"""\n|[ \t]+|<<~|<=>|===|\*\*|&&|\|\||&\.|::|\.\.\.|\.\.|==|!=|<=|>=|<<|>>|=>|->|\+=|-=|\*=|/=|\|\|=|&&=|=~|.""",
    re.S)


def tokens(text):
    return TOKEN_RE.findall(text)


HOSTILE = [
    # keywords the evaluator dispatches on
    "def", "end", "class", "module", "if", "unless", "elsif", "else", "case", "when", "in", "while", "until", "for",
    "do", "begin", "rescue", "ensure", "return", "yield", "self", "super", "then", "and", "or", "not", "nil", "true",
    "false", "break", "next", "loop", "private", "protected", "public", "attr_reader", "attr_writer", "attr_accessor",
    "include", "extend", "raise", "require", "dbtp", "p", "puts", "lambda", "proc", "new", "initialize",
    "class << self", "def self.", "def x.y", "alias", "defined?", "__method__", "is_a?", "nil?",
    # operators and punctuation
    "+", "-", "*", "/", "%", "**", "=", "==", "!=", "<", ">", "<=", ">=", "<=>", "<<", ">>", "&&", "||", "!", "&", "|",
    "^", "~", "?", ":", "::", ".", "&.", "..", "...", ",", ";", "(", ")", "[", "]", "{", "}", "|x|", "=>", "->", "+=",
    "-=", "||=", "&&=", "*a", "**k", "&blk", "a:", "a: 1", "\\", "@", "@@", "$", "@a", "@@a", "$a",
    # literals and literal openers
    "1", "1.5", "0x1f", "1_000", "1.", "\"", "'", "\"s\"", "'s'", ":sym", ":\"s", "\"#{", "#{", "}", "%w", "%w(a b)", "%i(a b)",
    "%", "%q(", "<<~EOS", "<<~EOS\nx\nEOS", "=begin", "=end", "#", "# c", "`", "?a", "/re/", "[1, 2]", "{a: 1}", "{ |x| x }",
    "1..2", "(1..)", "[]", "{}", "()", "nil", "[1, \"a\"]", "{a: 1, \"b\" => 2}",
    # strategy-table methods
    "a.replace", "a.push", "a << ", "a.append", "a.concat", "a.unshift", "a.slice", "a + ", "h.merge", "h.merge!",
    "h.shift", ".class", ".new", ".each do |x|", ".map { |x| x }", ".collect ", ".each_with_index do |a, b|",
    ".times do |i|", ".call", ".is_a?(Integer)", ".nil?", ".to_s", ".first", ".zip", "[0]", "[:a]", "[0] = ",
    # whitespace / control
    "\n", "\n\n", " ", "\t", "\r", "\r\n", "\x00", "\xff", "\xc3", "\xe3\x81", "\x7f", "\x1b",
    # type-ish words from ti's own string constants
    "union", "array", "hash", "block", "range", "bool", "unknown", "untyped", "Unknown", "Union", "Array", "Hash",
    "Integer", "String", "Float", "Symbol", "NilClass", "Object", "Kernel", "Proc", "Range", "Test", "Parent", "Child",
    "case a\nin {name:,", "in [x, *]", "in {a: Integer => b}", "when 1 then", "x = if a", "rescue => e", "-> (x) {",
    "def a(b, *c, d: 1, **e, &f)", "def test x, *", "def =", "def a = 1", "class A < A", "class A < B", "class B < A",
    "module M", "include M", "extend M", "A.new.", "A::B", "::A", "self.", "super(", "yield(",
]


class Texts(list):
    """A list with a short repr (Hypothesis renders strategy arguments)."""

    def __repr__(self):
        return "<%d texts>" % len(self)


def prefixes_of(text):
    """All line prefixes, each with and without the final newline."""
    lines = text.split("\n")
    res = []
    for i in range(1, len(lines) + 1):
        pre = "\n".join(lines[:i])
        res.append(pre)
        if i < len(lines):
            res.append(pre + "\n")
    return res


@st.composite
def mutated(draw, texts, max_mut=3):
    """1..max_mut stacked token mutations of one of `texts` (list of str)."""
    i = draw(st.integers(0, len(texts) - 1))
    toks = tokens(texts[i])
    if len(toks) > 400:
        start = draw(st.integers(0, len(toks) - 400))
        toks = toks[start:start + 400]
    n = draw(st.integers(1, max_mut))
    for _ in range(n):
        if not toks:
            toks = [draw(st.sampled_from(HOSTILE))]
            continue
        op = draw(st.sampled_from(["delete", "insert", "replace", "swap", "dup", "range_delete", "splice", "truncate"]))
        pos = draw(st.integers(0, len(toks) - 1))
        if op == "delete":
            del toks[pos]
        elif op == "insert":
            toks.insert(pos, draw(st.sampled_from(HOSTILE)))
        elif op == "replace":
            toks[pos] = draw(st.sampled_from(HOSTILE))
        elif op == "swap":
            q = draw(st.integers(0, len(toks) - 1))
            toks[pos], toks[q] = toks[q], toks[pos]
        elif op == "dup":
            toks.insert(pos, toks[pos])
        elif op == "range_delete":
            q = draw(st.integers(pos, min(len(toks), pos + 12)))
            del toks[pos:q]
        elif op == "splice":
            j = draw(st.integers(0, len(texts) - 1))
            other = tokens(texts[j])
            if other:
                a = draw(st.integers(0, len(other) - 1))
                b = draw(st.integers(a, min(len(other), a + 15)))
                toks[pos:pos] = other[a:b]
        elif op == "truncate":
            toks = toks[:pos + 1]
    return "".join(toks)


@st.composite
def prefix_of(draw, texts):
    """A line or token prefix of one of `texts`, with or without final newline."""
    i = draw(st.integers(0, len(texts) - 1))
    t = texts[i]
    if draw(st.booleans()):
        lines = t.split("\n")
        k = draw(st.integers(1, max(1, len(lines))))
        pre = "\n".join(lines[:k])
        if draw(st.booleans()):
            pre += "\n"
        return pre
    toks = tokens(t)
    if not toks:
        return t
    k = draw(st.integers(1, len(toks)))
    pre = "".join(toks[:k])
    tail = draw(st.sampled_from(["", "", "\n", " ", ".", "(", ",", " do |", "\"", "#"]))
    return pre + tail


def fragments(max_n=12):
    """Concatenations of hostile fragments."""
    return st.lists(st.sampled_from(HOSTILE), min_size=1, max_size=max_n).map(
        lambda xs: "".join(x if (i % 2) else x + " " for i, x in enumerate(xs)))


def raw_latin1(max_size=256):
    return st.binary(max_size=max_size).map(lambda b: b.decode("latin-1"))


def raw_text(max_size=120):
    return st.text(max_size=max_size).map(lambda s: s.encode("utf8", "surrogatepass").decode("latin-1"))
