"""evidence/<ID>.json writer; validated against the schema before writing."""
import json
import os

from .build import VERIF

SCHEMA = "/root/.vp/EVIDENCE.schema.json"
LOCAL_SCHEMA = os.path.join(VERIF, "schemas", "EVIDENCE.schema.json")


def write(prop_id, tier, seed, coverage, assumptions, wall_s, violations, level="exploration"):
    doc = {
        "property_id": prop_id,
        "tier": tier,
        "seed": int(seed),
        "level": level,
        "coverage": coverage,
        "assumptions": assumptions,
        "wall_s": round(float(wall_s), 2),
        "violations": int(violations),
    }
    schema_path = SCHEMA if os.path.exists(SCHEMA) else LOCAL_SCHEMA
    if os.path.exists(schema_path):
        import jsonschema
        with open(schema_path) as fh:
            schema = json.load(fh)
        # a run that explored too little must not masquerade as evidence, but the file is still written
        try:
            jsonschema.validate(doc, schema)
        except jsonschema.ValidationError as e:
            os.makedirs(os.path.join(VERIF, "evidence"), exist_ok=True)
            with open(os.path.join(VERIF, "evidence", prop_id + ".json"), "w") as fh:
                json.dump(doc, fh, indent=1, sort_keys=True)
            raise ValueError("evidence does not validate: %s" % e.message)
    os.makedirs(os.path.join(VERIF, "evidence"), exist_ok=True)
    tmp = os.path.join(VERIF, "evidence", prop_id + ".json.tmp")
    with open(tmp, "w") as fh:
        json.dump(doc, fh, indent=1, sort_keys=True)
        fh.write("\n")
    os.replace(tmp, os.path.join(VERIF, "evidence", prop_id + ".json"))
